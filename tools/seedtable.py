#!/usr/bin/env python3
"""Regenerates the seeded-change table in DESIGN.md (between the SEEDTABLE markers) from seeded/*/meta.json."""
import json, os, glob, re
ROOT = os.path.dirname(os.path.dirname(os.path.abspath(__file__)))
rows = []
for mp in sorted(glob.glob(os.path.join(ROOT, 'seeded', '*', 'meta.json'))):
    m = json.load(open(mp)); res = m.get('check_results', {})
    caught = [p for p, r in res.items() if r.get('caught')]
    ran = ', '.join('%s:%s' % (p, 'VIOLATION' if r.get('caught') else 'rc=%s' % r.get('rc')) for p, r in sorted(res.items())) or 'not run (property not claimed)'
    verdict = 'caught by ' + ', '.join(caught) if caught else ('missed' if res else 'n/a')
    rows.append('| %s | %s | %s | %s | %s |' % (m['id'], m['change'].replace('|', '/'), m.get('needs_to_manifest', '').replace('|', '/'), verdict, ran if caught else m.get('miss_reason', ran)))
tab = '| seed | change | needs | verdict | checks run / why missed |\n|------|--------|-------|---------|--------------------------|\n' + '\n'.join(rows) + '\n'
p = os.path.join(ROOT, 'DESIGN.md'); s = open(p).read()
rep = '<!-- SEEDTABLE -->\n' + tab + '<!-- /SEEDTABLE -->'
s = re.sub(r'<!-- SEEDTABLE -->.*?(<!-- /SEEDTABLE -->|$)', lambda m: rep, s, flags=re.S)
open(p, 'w').write(s); print(len(rows), 'rows')
