#!/usr/bin/env python3
"""copies the outcome of tools/confirm_seed.sh (seeded/<id>/confirm.txt) into seeded/<id>/meta.json"""
import json, glob, os
ROOT = os.path.dirname(os.path.dirname(os.path.abspath(__file__)))
for c in sorted(glob.glob(os.path.join(ROOT, 'seeded', '*', 'confirm.txt'))):
    mp = os.path.join(os.path.dirname(c), 'meta.json')
    if not os.path.exists(mp): continue
    t = open(c).read(); meta = json.load(open(mp))
    meta['confirmed'] = dict(how='tools/confirm_seed.sh in a scratch worktree of /repo: demo on clean HEAD, demo with the patch, unit tests of the affected area with the patch',
                             demo_clean_rc=int(t.split('demo_clean_rc=')[1].split()[0]), demo_patched_rc=int(t.split('demo_patched_rc=')[1].split()[0]), tests_pass_with_patch='All tests passed' in t, raw=t[-300:])
    json.dump(meta, open(mp, 'w'), indent=1)
print('ok')
