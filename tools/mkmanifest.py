#!/usr/bin/env python3
"""Regenerates /verif/MANIFEST.json from the table below (single source of truth for what is claimed)."""
import json, os
ROOT = os.path.dirname(os.path.dirname(os.path.abspath(__file__)))
TAIL = ' Every verdict is a SAT-solver UNSAT over all inputs within the stated bound; nothing outside the bound is claimed.'
NOTE = 'trusted: clang -O1 lowering, engine/irc.py (differentially self-tested where a selftest exists), CBMC+kissat, the harness reference models; bounds and assumptions are listed in the evidence file'
TECH = 'bounded model checking (CBMC/SAT) of C translated from the LLVM IR of the real templates'
CLAIMS = {
 'C01': ('text,num,enc', 'K1.1 escape_string round-trip against an RFC 8259 un-escaper (all strings <= 4 B x both flags), K1.2 from_integer/dec_to_integer canonical integers (digit classes), K8.1 compact encoder text of short event sequences equals an independent rendering.'),
 'C02': ('text', 'K2.2 UTF-8 automata (validate, is_legal_utf8, to_codepoint, count_codepoints, utf32->utf8, surrogate classes) against the RFC 3629 / UTF-16 tables.'),
 'C03': ('dlim (source operations)', 'K3.3 the Source concept through which every binary parser reads its input - read, peek, ignore, read_span, read_chunk, eof, position on the real bytes_source (one contiguous buffer) and the real iterator_source (an iterator range refilled in chunks of 1..3) - behaves exactly like the reference array+position model for every sequence of 2 operations with symbolic kind and length over a symbolic file, so how the bytes are delivered is invisible to the parsers (Source-level clause only; the JSON push parser split-delivery kernels jtok/jparse run in the thorough tier, stream_source and cursors are outside reach).'),
 'C04': ('num', 'K4.1-K4.3 integer<->text conversions (dec_to_integer, to_integer, hex_to_integer, from_integer, integer_to_hex) against u128 reference arithmetic.'),
 'C05': ('slice (safety mode), typed', 'slice loops of JSONPath/JMESPath in safety mode (clang UBSan traps + CBMC pointer checks): no signed overflow, every element access in bounds; tuple/array conversion traits never index out of bounds or a non-array.'),
 'C06': ('cbor, enc', 'K6.1/K6.4 CBOR encoder o decoder round trip for every 64-bit integer/double/half/bool/null, shortest heads for every (major,length), stringref threshold table; container heads of the CBOR/MessagePack/UBJSON encoders denote exactly the declared length or are refused.'),
 'C07': ('cbor, text', 'K7.1 the real CBOR read_item against an RFC 8949 reference decoder for majors 0/1/7, every additional-information value, truncation and reserved codes; UTF-8 validation of text.'),
 'C08': ('enc, text, cbor', 'K8.1 compact JSON encoder on short grammatical event sequences equals an independent RFC 8259 rendering; escape_string emits only legal escapes; K8.2 container heads of CBOR/MessagePack/UBJSON encoders are well formed and carry the declared length, or the encoder reports an error.'),
 'C09': ('jcmp', 'K9.1 basic_json::compare and ==, !=, <, <=, >, >= on the REAL jsoncons::json for every pair of scalar storage kinds (null, bool, int64, uint64, empty object, double, half, big-number string; all 64-bit payloads): antisymmetry, reflexivity (NaN aside), operators agree with compare, no unreachable/assert (relational clause only; untagged strings in the thorough tier; copy/move/insert histories are outside reach).'),
 'C10': ('dlim, enc', 'K10.1 every container-opening function of the JSON/CBOR/MessagePack/UBJSON/BSON parsers and of the compact-JSON/CBOR/MessagePack/UBJSON encoders, entered from ANY depth <= limit: refused with max_nesting_depth_exceeded iff depth+1 > limit, otherwise depth+1 and exactly one state pushed whatever length is claimed, end_* restores; K10.2 UBJSON max_items; K10.3 source_reader never grows a buffer by more than one chunk, never by the claimed length (one inductive step covers nesting of any depth).'),
 'C12': ('slice', 'K12.1 the real slice_selector::select loop against RFC 9535 slice semantics for every int64 start/stop/step, size <= 5 (slice clause only).'),
 'C13': ('slice', 'K13.1 the real slice_projection::evaluate loop against Python slice semantics, step 0 -> error (slice clause only).'),
 'C14': ('jptr', 'K14.2 jsonpointer::escape inverse of RFC 6901 un-escaping; K14.3 detail::resolve (const and mutable): RFC 6901 array-index syntax, "-", index < size, exact key, errors leave the target untouched (tokenizer/escape/index clauses only).'),
 'C17': ('typed', 'the real decode_traits<std::array|std::pair|integer>::decode on a model cursor and json_traits<Json,std::tuple|std::array|std::pair>::try_as/is on a model Json: a shape that does not fit is an error on both routes, nothing is indexed out of bounds, no partly filled value is returned, and the two routes agree for std::array (shape-error clause only).'),
 'C18': ('csvenc', 'K18.1 basic_csv_encoder::write_string_value: quoted whenever delimiter/quote/CR/LF present, always under all/nonnumeric; un-quoting gives the field back (encoder half of the quoting contract only).'),
}
NA = {
 'C11': 'JSON Schema verdicts come from a factory-built graph of virtual keyword validators over the heap DOM, std::regex, URI maps and floating-point remainder; no anchored leaf decides a verdict and can be lowered to the IR->C->CBMC pipeline within reach (DESIGN 0, C11).',
 'C15': 'apply_patch is an undo log over pointer-rich DOM edits dispatched on string-valued members through vector<string> pointers; the atomicity argument is over heap histories that bit-precise BMC of the lowered IR does not reach; its lowerable leaf (pointer token/index syntax) is decided under C14.',
 'C19': "the property IS exception unwinding after bad_alloc; the only encoding route on this image (clang IR with -fno-exceptions -> C -> CBMC) has no unwinder/landing pads/destructors-on-unwind, and CBMC's C++ front end cannot parse libstdc++.",
 'C20': 'data-race freedom over all interleavings needs the whole heap-backed evaluator under a concurrency-aware engine; CBMC cannot parse the C++ and the IR route yields sequential C only.',
 'C16': 'the real mergepatch templates instantiate over a bounded model DOM and translate, but symbolic execution of the data-guarded recursion does not terminate within budget even at depth 1 (three model DOMs tried, DESIGN 6.3): not decided, so not claimed.',
}
def main():
    checks = []
    for pid in sorted(CLAIMS):
        k, t = CLAIMS[pid]
        checks.append(dict(property_id=pid, quick_cmd='./check %s --tier quick' % pid, thorough_cmd='./check %s --tier thorough' % pid, evidence_file='/verif/evidence/%s.json' % pid,
                           replay_cmd_template='./check --replay {path}', engine='irc+cbmc',
                           level_claimed=dict(category='other', text='Bounded symbolic verification of the real template code (kernels: %s): %s%s' % (k, t, TAIL), design_ref='DESIGN.md section 3 ' + pid),
                           level_note=NOTE, technique=TECH))
    m = dict(version=1, setup_cmd='python3 /verif/engine/setup_check.py',
             hooks=dict(guard='JSONCONS_VERIF', enable='shims are compiled with -DJSONCONS_VERIF -I/repo/include; private state is reached with -fno-access-control and the control macros (JSONCONS_THROW/ASSERT/UNREACHABLE) are overridden inside the shim, so no source hooks exist in /repo',
                        baseline_off_cmd='cd /repo && cmake -G Ninja -B _build -DCMAKE_BUILD_TYPE=RelWithDebInfo -DJSONCONS_BUILD_TESTS=ON && cmake --build _build && ctest --test-dir _build -j8 --timeout 900', source_commits=[], add_only=True),
             engines=[dict(name='irc+cbmc', path='/verif/engine', serves_properties=sorted(CLAIMS), kind_free_text='clang++-14 -> LLVM IR -> own IR->C translator (engine/irc.py) -> CBMC 6.11 bounded model checking with kissat; counterexamples replayed natively on the real templates under ASan+UBSan')],
             checks=checks, notes='see DESIGN.md', not_applicable=[dict(property_id=p, reason=NA[p]) for p in sorted(NA) if p not in CLAIMS])
    json.dump(m, open(os.path.join(ROOT, 'MANIFEST.json'), 'w'), indent=1)
    print('claimed:', ' '.join(sorted(CLAIMS)), '| n/a:', ' '.join(x['property_id'] for x in m['not_applicable']))
main()
