#!/bin/bash
# usage: confirm_seed.sh <seed-dir> [jobs]   - independently confirm a seeded change in a scratch worktree:
#   demo passes on clean HEAD, fails with the patch, and the unit tests of the affected area(s) still pass with the patch.
set -u
SD=$(readlink -f "$1"); J=${2:-6}; ID=$(basename "$SD"); WT=/tmp/confirm_$ID
rm -rf "$WT"; git -C /repo worktree prune; git -C /repo worktree add --detach "$WT" HEAD >/dev/null 2>&1 || { echo "worktree failed"; exit 2; }
cd "$WT"; R="$SD/confirm.txt"; : > "$R"
g++ -std=c++17 -I include "$SD/demo.cpp" -o demo_clean 2>>"$R" && ./demo_clean >/dev/null 2>&1; echo "demo_clean_rc=$?" >> "$R"
git apply "$SD/patch.diff" || { echo "patch does not apply" >> "$R"; }
g++ -std=c++17 -I include "$SD/demo.cpp" -o demo_patched 2>>"$R" && ./demo_patched >/dev/null 2>&1; echo "demo_patched_rc=$?" >> "$R"
areas=$(grep '^+++ b/include' "$SD/patch.diff" | sed -E 's#^\+\+\+ b/include/jsoncons_ext/([a-z0-9]+)/.*#\1#; s#^\+\+\+ b/include/jsoncons/.*#corelib#' | sort -u)
# a core header is used by every extension: build corelib plus the binary/text formats that drive it
case " $areas " in *" corelib "*) areas="corelib";; esac
mkdir -p obj; srcs="test/corelib/src/testmain.cpp"
for a in $areas; do srcs="$srcs $(find test/$a/src -name "*.cpp" | grep -v "testmain\|mdspan" | tr "\n" " ")"; done
echo "areas=$areas nsrc=$(echo $srcs | wc -w)" >> "$R"
echo $srcs | tr ' ' '\n' | xargs -P "$J" -I{} sh -c 'o=obj/$(echo {} | tr / _).o; nice g++ -std=c++17 -O0 -w -I include -I test/thirdparty -I test/thirdparty/catch -I test/common -I test -c {} -o $o 2>>obj/err.txt || echo "COMPILE FAIL {}" >> obj/fail.txt'
if [ -f obj/fail.txt ]; then cat obj/fail.txt >> "$R"; fi
g++ obj/*.o -o t_all -lpthread 2>>"$R" && (cd test && ../t_all 2>&1 | tail -3) >> "$R"; echo "tests_rc=$?" >> "$R"
cd /; git -C /repo worktree remove --force "$WT"; cat "$R"
