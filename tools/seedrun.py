#!/usr/bin/env python3
"""tools/seedrun.py <seed-id> [prop ...] [--tier quick|thorough]
Runs the registered checks against a seeded change WITHOUT touching /repo: a scratch worktree of /repo gets the patch, the checks are pointed at it
(VERIF_REPO), build/evidence/replay output goes to scratch directories, and the worktree is removed afterwards.  Result is merged into seeded/<id>/meta.json."""
import sys, os, json, subprocess, shutil, time, re
ROOT = os.path.dirname(os.path.dirname(os.path.abspath(__file__)))
def main():
    args = [a for a in sys.argv[1:] if not a.startswith('--')]
    tier = 'quick'
    if '--tier' in sys.argv: tier = sys.argv[sys.argv.index('--tier') + 1]; args = [a for a in args if a != tier]
    sid = args[0]; sd = os.path.join(ROOT, 'seeded', sid)
    meta_p = os.path.join(sd, 'meta.json'); meta = json.load(open(meta_p)) if os.path.exists(meta_p) else {}
    props = args[1:] or meta.get('check_properties') or [sid.split('-')[0]]
    wt = '/tmp/seedwt_%s_%d' % (sid, os.getpid())
    subprocess.run(['git', '-C', '/repo', 'worktree', 'prune'])
    subprocess.run(['git', '-C', '/repo', 'worktree', 'add', '--detach', wt, 'HEAD'], check=True, stdout=subprocess.DEVNULL, stderr=subprocess.DEVNULL)
    res = {}
    try:
        subprocess.run(['git', '-C', wt, 'apply', os.path.join(sd, 'patch.diff')], check=True)
        scratch = '/tmp/seedout_%s_%d' % (sid, os.getpid()); os.makedirs(scratch, exist_ok=True)
        env = dict(os.environ, VERIF_REPO=wt, VERIF_BUILD_TAG='-seed-' + sid, VERIF_EVIDENCE_DIR=os.path.join(scratch, 'ev'), VERIF_REPLAY_DIR=os.path.join(scratch, 'rp'))
        for p in props:
            t0 = time.time()
            r = subprocess.run([os.path.join(ROOT, 'check'), p, '--tier', tier], env=env, stdout=subprocess.PIPE, stderr=subprocess.STDOUT, text=True)
            out = r.stdout
            vio = [l for l in out.splitlines() if l.startswith('VIOLATION')]
            cex = [l.strip()[:300] for l in out.splitlines() if l.strip().startswith('counterexample:')][:3]
            res[p] = dict(tier=tier, rc=r.returncode, violations=len(vio), caught=(r.returncode == 1 and len(vio) > 0), wall_s=round(time.time() - t0), counterexamples=cex,
                          other=[l[:300] for l in out.splitlines() if l.startswith(('BROKEN', 'UNDECIDED'))][:4])
            print(sid, p, json.dumps(res[p])[:600], flush=True)
        shutil.rmtree(scratch, ignore_errors=True)
    finally:
        subprocess.run(['git', '-C', '/repo', 'worktree', 'remove', '--force', wt])
    meta.setdefault('check_results', {}).update(res)
    json.dump(meta, open(meta_p, 'w'), indent=1)
main()
