#!/usr/bin/env python3
"""tools/seedmerge.py <log> [commit]: merges 'SID PROP {json}' result lines printed by tools/seedrun.py (e.g. from a `vp run` log) into seeded/<id>/meta.json."""
import sys, os, json, re
ROOT = os.path.dirname(os.path.dirname(os.path.abspath(__file__)))
commit = sys.argv[2] if len(sys.argv) > 2 else None
n = 0
for line in open(sys.argv[1], errors='replace'):
    m = re.match(r'^(C\d\d-\d+) (C\d\d) (\{.*\})\s*$', line)
    if not m: continue
    sid, prop, js = m.groups()
    try: r = json.loads(js)
    except Exception: continue
    if commit: r['verif_commit'] = commit
    mp = os.path.join(ROOT, 'seeded', sid, 'meta.json')
    if not os.path.exists(mp): continue
    meta = json.load(open(mp)); meta.setdefault('check_results', {})[prop] = r
    json.dump(meta, open(mp, 'w'), indent=1); n += 1
print('merged', n)
