#!/usr/bin/env python3
"""tools/seedmerge.py <log> [commit]: merges 'SID PROP {json}' result lines printed by tools/seedrun.py (e.g. from a `vp run` log) into seeded/<id>/meta.json."""
import sys, os, json, re
ROOT = os.path.dirname(os.path.dirname(os.path.abspath(__file__)))
commit = sys.argv[2] if len(sys.argv) > 2 else None
n = 0
for line in open(sys.argv[1], errors='replace'):
    m = re.match(r'^(C\d\d-\d+) (C\d\d) (\{.*)$', line)
    if not m: continue
    sid, prop, js = m.groups()
    try: r = json.loads(js)
    except Exception:
        # `vp run` logs truncate long lines: recover the scalar fields, keep what is left of the counterexample text
        g = lambda k: re.search(r'"%s": ([a-z0-9.]+)' % k, js)
        if not (g('rc') and g('caught')): continue
        r = dict(tier='quick', rc=int(g('rc').group(1)), violations=int(g('violations').group(1)) if g('violations') else None, caught=g('caught').group(1) == 'true',
                 wall_s=float(g('wall_s').group(1)) if g('wall_s') else None, counterexamples=[js[js.find('"counterexamples"'):][:400] + ' ...(log line truncated)'])
    if commit: r['verif_commit'] = commit
    mp = os.path.join(ROOT, 'seeded', sid, 'meta.json')
    if not os.path.exists(mp): continue
    meta = json.load(open(mp)); meta.setdefault('check_results', {})[prop] = r
    json.dump(meta, open(mp, 'w'), indent=1); n += 1
print('merged', n)
