// kernel "bigint": jsoncons::bigint (basic_bigint<std::allocator<uint8_t>>) comparison, addition, subtraction, negation and shifts on operands that fit the two
// inlined 64-bit limbs, against __int128 arithmetic.  Serves C04 (K4.5).
#include "vshim.h"
#include <jsoncons/utility/bigint.hpp>
using big = jsoncons::bigint;
typedef __int128 i128; typedef unsigned __int128 u128t;
// a bigint holding sign * (hi * 2^64 + lo), built directly in the inlined two-limb storage (the 128-bit constructors are disabled under -std=c++17 because
// std::is_integral<__int128> is false); size_ is normalised (no leading zero limb), zero is non-negative
static inline void mk(big& A, i128 v) {
    u128t m = v < 0 ? (u128t)0 - (u128t)v : (u128t)v; unsigned long lo = (unsigned long)m, hi = (unsigned long)(m >> 64);
    A.storage_.inlined_.is_allocated_ = 0; A.storage_.inlined_.is_negative_ = (v < 0) ? 1 : 0;
    A.storage_.inlined_.size_ = hi ? 2 : (lo ? 1 : 0); A.storage_.inlined_.values_[0] = lo; A.storage_.inlined_.values_[1] = hi;
}
KFN int k_big_cmp(i128 a, i128 b) { big A, B; mk(A, a); mk(B, b); return A.compare(B); }
KFN int k_big_add_eq(i128 a, i128 b, i128 c) { big A, B, C; mk(A, a); mk(B, b); mk(C, c); big R = A + B; return R.compare(C); }
KFN int k_big_sub_eq(i128 a, i128 b, i128 c) { big A, B, C; mk(A, a); mk(B, b); mk(C, c); big R = A - B; return R.compare(C); }
KFN int k_big_neg_eq(i128 a, i128 c) { big A, C; mk(A, a); mk(C, c); big R = -A; return R.compare(C); }
KFN int k_big_shl_eq(unsigned long a, unsigned k, i128 c) { big A(a), C; mk(C, c); big R = A << k; return R.compare(C); }
KFN int k_big_shr_eq(i128 a, unsigned k, i128 c) { big A, C; mk(A, a); mk(C, c); big R = A >> k; return R.compare(C); }
KFN int k_big_eq_ops(i128 a, i128 b) { big A, B; mk(A, a); mk(B, b); int r = 0; if (A == B) r |= 1; if (A != B) r |= 2; if (A < B) r |= 4; if (A <= B) r |= 8; if (A > B) r |= 16; if (A >= B) r |= 32; return r; }
KFN int k_big_from_i64_eq(long v, i128 c) { big A(v), C; mk(C, c); return A.compare(C); }
KFN int k_big_from_u64_eq(unsigned long v, i128 c) { big A(v), C; mk(C, c); return A.compare(C); }
