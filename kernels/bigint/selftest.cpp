#include "vselftest.h"
typedef __int128 i128;
extern "C" {
int k_big_cmp(i128, i128); int c_k_big_cmp(i128, i128);
int k_big_add_eq(i128, i128, i128); int c_k_big_add_eq(i128, i128, i128);
int k_big_sub_eq(i128, i128, i128); int c_k_big_sub_eq(i128, i128, i128);
int k_big_neg_eq(i128, i128); int c_k_big_neg_eq(i128, i128);
int k_big_shl_eq(unsigned long, unsigned, i128); int c_k_big_shl_eq(unsigned long, unsigned, i128);
int k_big_shr_eq(i128, unsigned, i128); int c_k_big_shr_eq(i128, unsigned, i128);
int k_big_eq_ops(i128, i128); int c_k_big_eq_ops(i128, i128);
}
static i128 rnd() { unsigned __int128 v = ((unsigned __int128)st_rand() << 64) | st_rand(); unsigned sh = st_rand() % 128; v >>= sh; i128 s = (i128)v; if (st_rand() & 1) s = -s; if (s == ((i128)1 << 127)) s = 0; return s; }
ST_MAIN_BEGIN
  for (int it = 0; it < 200000; it++) { i128 a = rnd(), b = rnd(); i128 lim = (i128)1 << 126;
    ST_CHECK(k_big_cmp(a, b) == c_k_big_cmp(a, b)); ST_CHECK(k_big_eq_ops(a, b) == c_k_big_eq_ops(a, b));
    if (a > -lim && a < lim && b > -lim && b < lim) { ST_CHECK(k_big_add_eq(a, b, a + b) == c_k_big_add_eq(a, b, a + b)); ST_CHECK(k_big_sub_eq(a, b, a - b) == c_k_big_sub_eq(a, b, a - b)); ST_CHECK(k_big_add_eq(a, b, a + b) == 0); ST_CHECK(k_big_sub_eq(a, b, a - b) == 0); }
    ST_CHECK(k_big_neg_eq(a, -a) == c_k_big_neg_eq(a, -a)); unsigned k = st_rand() % 64; unsigned long x = st_rand();
    ST_CHECK(k_big_shl_eq(x, k, (i128)((unsigned __int128)x << k)) == c_k_big_shl_eq(x, k, (i128)((unsigned __int128)x << k)));
    if (a >= 0) { int x1 = k_big_shr_eq(a, k, a >> k), x2 = c_k_big_shr_eq(a, k, a >> k); if (x1 != x2 && st_bad < 3) fprintf(stderr, "shr a=%016llx%016llx k=%u native=%d c=%d\n", (unsigned long long)(a >> 64), (unsigned long long)a, k, x1, x2); ST_CHECK(x1 == x2); } }
ST_MAIN_END
