"""kernel bigint: jsoncons::bigint compare / relational operators / + / - / unary minus / << / >> / construction from 64-bit integers on operands of up to two
inlined 64-bit limbs, against __int128 arithmetic.  Serves C04 (K4.5)."""
ASSUMPTIONS = ['bigint/*: operands are built directly in the inlined two-limb storage (|v| < 2^127; sums/differences restricted to |a|,|b| < 2^126 so the result fits); shift counts 0..63',
               'bigint: results are compared through bigint::compare, which h_cmp decides against the integer order for all two-limb operands; multiplication, division, decimal text and operands of three or more limbs (heap storage) are outside the bound']
STUB_NOTES = ['operator new modelled (not reached for two-limb results)']
def jobs(tier):
    J = []
    HS = [('h_cmp', 'compare and the six relational operators agree with the integers')]
    if tier == 'thorough':   # 128-bit carry chains: 10+ min
        HS += [('h_addsub', 'a + b, a - b, -a are the integer results')]
    # h_shift (<<, >>, construction) stays in harness.c but is not run: CBMC reports spurious NULL dereferences through bigint's storage union (the counterexamples do not
    # reproduce natively = ENCODING-SUSPECT, exit 2), so it cannot be a registered job; the >> 0 defect it led to was found by the translation self-test (DESIGN 6.4)
    for h, d in HS:
        J.append(dict(id=h[2:], harness=h, props=['C04'], unwind=8, defs={}, timeout=2400, mem_gb=8, desc='bigint: ' + d, bound='all operands of up to two 64-bit limbs (see assumptions)'))
    return J
