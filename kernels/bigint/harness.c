/* harnesses for kernel "bigint" (C04 K4.5): basic_bigint agrees with true integer arithmetic on operands of up to two 64-bit limbs */
#include "kernel.c"
#include "vharness.h"
INPUT(u64, IN_alo) INPUT(u64, IN_ahi) INPUT(u64, IN_blo) INPUT(u64, IN_bhi) INPUT(u32, IN_k)
#define LO(x) ((u64)(u128)(x))
#define HI(x) ((u64)((u128)(x) >> 64))
static s128 A_(void) { return (s128)(((u128)IN_ahi << 64) | IN_alo); }
static s128 B_(void) { return (s128)(((u128)IN_bhi << 64) | IN_blo); }
static int sgn32(u32 x) { s32 v = (s32)x; return v > 0 ? 1 : v < 0 ? -1 : 0; }
static void in2(void) { HAVOC(IN_alo); HAVOC(IN_ahi); HAVOC(IN_blo); HAVOC(IN_bhi); HAVOC(IN_k); IRC_THROW_ALLOWED = 0;
  ASSUME(!(IN_ahi == 0x8000000000000000ULL && IN_alo == 0) && !(IN_bhi == 0x8000000000000000ULL && IN_blo == 0)); }   /* |v| fits two limbs: -2^127 itself is excluded */
HARNESS(h_cmp) { in2(); s128 a = A_(), b = B_();
  u32 c = k_big_cmp(LO(a), HI(a), LO(b), HI(b));
  P(sgn32(c) == (a < b ? -1 : a > b ? 1 : 0), "compare agrees with the order of the integers");
  u32 m = k_big_eq_ops(LO(a), HI(a), LO(b), HI(b));
  P(((m & 1) != 0) == (a == b) && ((m & 2) != 0) == (a != b) && ((m & 4) != 0) == (a < b) && ((m & 8) != 0) == (a <= b) && ((m & 16) != 0) == (a > b) && ((m & 32) != 0) == (a >= b), "==, !=, <, <=, >, >= agree with the integers");
  WIT(a < b && a < 0 && b > 0); }
HARNESS(h_addsub) { in2(); s128 a = A_(), b = B_(); s128 lim = (s128)1 << 126; ASSUME(a > -lim && a < lim && b > -lim && b < lim);   /* so that the results fit two limbs */
  P(k_big_add_eq(LO(a), HI(a), LO(b), HI(b), LO(a + b), HI(a + b)) == 0, "a + b is the integer sum (carry across the limb boundary, mixed signs)");
  P(k_big_sub_eq(LO(a), HI(a), LO(b), HI(b), LO(a - b), HI(a - b)) == 0, "a - b is the integer difference (borrow across the limb boundary, mixed signs)");
  P(k_big_neg_eq(LO(a), HI(a), LO(-a), HI(-a)) == 0, "-a is the negation");
  WIT(a > 0 && b < 0 && a + b < 0 && HI(a) != 0); }
HARNESS(h_shift) { in2(); ASSUME(IN_k <= 63);
  u128 sh = (u128)IN_alo << IN_k;
  P(k_big_shl_eq(IN_alo, IN_k, LO(sh), HI(sh)) == 0, "a << k multiplies by 2^k (result up to two limbs)");
  s128 a = A_(); ASSUME(a >= 0); u128 sr = (u128)a >> IN_k;
  P(k_big_shr_eq(LO(a), HI(a), IN_k, LO(sr), HI(sr)) == 0, "a >> k divides a non-negative value by 2^k");
  P(k_big_from_i64_eq(IN_blo, LO((s128)(s64)IN_blo), HI((s128)(s64)IN_blo)) == 0, "construction from int64 is exact");
  P(k_big_from_u64_eq(IN_blo, IN_blo, 0) == 0, "construction from uint64 is exact");
  WIT(IN_k > 40 && HI(sh) != 0); }
