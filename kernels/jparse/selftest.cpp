#include "vselftest.h"
struct jev { unsigned char kind; unsigned char tag; unsigned short len; unsigned long long bits; unsigned char str[8]; };
extern "C" {
int k_json_parse(const char*, unsigned long, unsigned long, unsigned long, unsigned, jev*, unsigned, unsigned*);
int c_k_json_parse(const char*, unsigned long, unsigned long, unsigned long, unsigned, jev*, unsigned, unsigned*);
[[noreturn]] void _ZSt21__glibcxx_assert_failPKciS0_S0__unused(void);
}
static void one(const char* s, unsigned long n, unsigned long a, unsigned long b, unsigned opts) {
  jev e1[16], e2[16]; memset(e1, 0, sizeof e1); memset(e2, 0, sizeof e2); unsigned n1 = 0, n2 = 0; int r1 = 0, r2 = 0;
  int t1 = ST_TRY(r1 = k_json_parse(s, n, a, b, opts, e1, 16, &n1)); int t2 = ST_TRY(r2 = c_k_json_parse(s, n, a, b, opts, e2, 16, &n2));
  bool same = t1 == t2 && (t1 || (r1 == r2 && n1 == n2));
  if (same && !t1) for (unsigned i = 0; i < n1 && i < 16; i++) if (e1[i].kind != e2[i].kind || e1[i].tag != e2[i].tag || e1[i].len != e2[i].len || e1[i].bits != e2[i].bits || memcmp(e1[i].str, e2[i].str, 8)) same = false;
  ST_CHECK(same);
}
ST_MAIN_BEGIN
  // documents in the style of the repository's parser tests plus seeded random token soups, each delivered whole and at random split points
  const char* docs[] = {"[]", "{}", "[1,2,3]", "{\"a\":1}", "{\"a\":[true,false,null]}", "\"\\u00e9\\n\"", "\"\\uD834\\uDD1E\"", "-0", "0", "01", "1.5e3", "-1.25E-2", "1e", "[1,]", "{\"a\":1,}", "[,]", "tru", "nul", "falsE",
    "18446744073709551615", "18446744073709551616", "-9223372036854775808", "-9223372036854775809", "1.0", " [ 1 , 2 ] ", "\r\n[\r\n]\r\n", "[[[[1]]]]", "[[[[[1]]]]]", "\"abc", "\"\\x\"", "\"\\uD834\"", "\"\\uDD1E\"", "/*c*/1", "//c\n1", "[1] x", "{\"a\" 1}", "{1:2}", "\"\x01\"", "\"\xc3\xa9\"", "\"\xff\""};
  for (const char* d : docs) { unsigned long n = strlen(d); for (unsigned long a = 0; a <= n; a++) for (unsigned opts = 0; opts < 16; opts++) { one(d, n, a, n, opts | (4 << 8)); one(d, n, a, (a + n + 1) / 2, opts | (3 << 8)); } }
  const char* al = "[]{},:\"\\tfnu0123456789.eE-+ \n\r\tabr/*";
  for (int it = 0; it < 60000; it++) { char s[12]; unsigned long n = st_rand() % 12; for (unsigned long i = 0; i < n; i++) s[i] = st_rand() % 8 ? al[st_rand() % 40] : (char)st_rand();
    unsigned long a = n ? st_rand() % (n + 1) : 0, b = n ? st_rand() % (n + 1) : 0; if (b < a) { unsigned long t = a; a = b; b = t; }
    one(s, n, a, b, (unsigned)(st_rand() % 16) | ((unsigned)(st_rand() % 4) << 8)); }
ST_MAIN_END
