"""kernel jparse: the REAL basic_json_parser<char> driven like basic_json_reader::read().  Serves C03 (K3.1), C02 (K2.1), C10, C05."""
ASSUMPTIONS = ['jparse/*: allow_comments off unless stated; max_nesting_depth = 3; input length concrete per job']
STUB_NOTES = ['std::string::_M_replace: C model by contract (engine/vmodels.h) - source must not alias the string (asserted); all other std::string code is the real libstdc++ code lowered from IR (-D_GLIBCXX_ASSERTIONS disables the extern templates)', 'strtod: by contract - consumes the validated literal, returns an injective finite function of the text (<= 6 chars)', 'recording visitor instead of json_decoder', 'driver loop mirrors basic_json_reader::read_next/check_done over up to 3 chunks']
STUBS = ['_ZNSt7__cxx1112basic_stringIcSt11char_traitsIcESaIcEE10_M_replaceEmmPKcm', '_ZNSt7__cxx1112basic_stringIcSt11char_traitsIcESaIcEE9_M_mutateEmmPKcm']
def jobs(tier):
    J = []
    import os
    if not os.environ.get('VERIF_EXPERIMENTAL'):
        return J   # measured (DESIGN 6.3): no job of this kernel gives a verdict within 40 min / 8 GB (the real JSON parser automaton); registered checks do not run it, nothing is claimed from it
    if tier != 'thorough':
        return J   # 2-15 min of symbolic execution per job: thorough tier only (DESIGN 6.3)
    for l in (1, 2, 3):
        J.append(dict(id='split1_L%d' % l, harness='h_split1', props=['C03'], unwind=l + 6, defs=dict(L=l), timeout=900, mem_gb=8, desc='whole vs two-chunk delivery at every split point: same error code and events', bound='all byte strings of length %d, every split point' % l))
    return J
