"""kernel jparse: the REAL basic_json_parser<char> driven like basic_json_reader::read().  Serves C03 (K3.1), C02 (K2.1), C10, C05."""
ASSUMPTIONS = ['jparse/*: allow_comments off unless stated; max_nesting_depth = 3; input length concrete per job']
STUB_NOTES = ['strtod: by contract - consumes the validated literal, returns an injective finite function of the text (<= 6 chars)', 'recording visitor instead of json_decoder', 'driver loop mirrors basic_json_reader::read_next/check_done over up to 3 chunks']
def jobs(tier):
    J = []
    for l in (1, 2, 3):
        J.append(dict(id='split1_L%d' % l, harness='h_split1', props=['C03'], unwind=l + 6, defs=dict(L=l), timeout=900, mem_gb=8, desc='whole vs two-chunk delivery at every split point: same error code and events', bound='all byte strings of length %d, every split point' % l))
    return J
