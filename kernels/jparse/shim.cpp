// kernel "jparse": the REAL basic_json_parser<char> (json_parser.hpp) driven exactly as basic_json_reader::read() drives it
// (update / parse_some / enter / accept / skip_whitespace / check_done), over up to three consecutive chunks of one input, with a
// recording visitor.  The parser object is constructed by its real constructor with real options.
#include "vshim.h"
#include <jsoncons/json_options.hpp>
#include <jsoncons/json_parser.hpp>
using namespace jsoncons;
struct jev { unsigned char kind; unsigned char tag; unsigned short len; unsigned long long bits; unsigned char str[8]; };
enum { J_NONE = 0, J_BEGIN_OBJECT, J_END_OBJECT, J_BEGIN_ARRAY, J_END_ARRAY, J_KEY, J_NULL, J_BOOL, J_STRING, J_UINT, J_INT, J_DOUBLE, J_HALF, J_BYTES };
extern "C" double vf_strtod_model(const char* s, unsigned long n);
struct jrec final : basic_json_visitor<char> {
    jev* out; unsigned n; unsigned cap;
    jrec(jev* o, unsigned c) : out(o), n(0), cap(c) {}
    void put(unsigned char k, semantic_tag t, unsigned long long b, const char* s = nullptr, unsigned long l = 0) {
        if (n < cap) { jev& e = out[n]; e.kind = k; e.tag = (unsigned char)t; e.bits = b; e.len = (unsigned short)l; for (unsigned i = 0; i < 8; ++i) e.str[i] = (s && i < l) ? (unsigned char)s[i] : 0; }
        n++;
    }
    void visit_flush() override {}
    bool visit_begin_object(semantic_tag t, const ser_context&, std::error_code&) override { put(J_BEGIN_OBJECT, t, 0); return true; }
    bool visit_end_object(const ser_context&, std::error_code&) override { put(J_END_OBJECT, semantic_tag::none, 0); return true; }
    bool visit_begin_array(semantic_tag t, const ser_context&, std::error_code&) override { put(J_BEGIN_ARRAY, t, 0); return true; }
    bool visit_end_array(const ser_context&, std::error_code&) override { put(J_END_ARRAY, semantic_tag::none, 0); return true; }
    bool visit_key(const string_view_type& s, const ser_context&, std::error_code&) override { put(J_KEY, semantic_tag::none, 0, s.data(), s.size()); return true; }
    bool visit_null(semantic_tag t, const ser_context&, std::error_code&) override { put(J_NULL, t, 0); return true; }
    bool visit_bool(bool v, semantic_tag t, const ser_context&, std::error_code&) override { put(J_BOOL, t, v); return true; }
    bool visit_string(const string_view_type& s, semantic_tag t, const ser_context&, std::error_code&) override { put(J_STRING, t, 0, s.data(), s.size()); return true; }
    bool visit_byte_string(const byte_string_view&, semantic_tag t, const ser_context&, std::error_code&) override { put(J_BYTES, t, 0); return true; }
    bool visit_uint64(uint64_t v, semantic_tag t, const ser_context&, std::error_code&) override { put(J_UINT, t, v); return true; }
    bool visit_int64(int64_t v, semantic_tag t, const ser_context&, std::error_code&) override { put(J_INT, t, (unsigned long long)v); return true; }
    bool visit_half(uint16_t v, semantic_tag t, const ser_context&, std::error_code&) override { put(J_HALF, t, v); return true; }
    bool visit_double(double v, semantic_tag t, const ser_context&, std::error_code&) override { unsigned long long b; __builtin_memcpy(&b, &v, 8); put(J_DOUBLE, t, b); return true; }
};
// options word: bit0 allow_trailing_comma, bit1 lossless_number, bit2 lossless_bignum, bit3 allow_comments; bits 8.. max_nesting_depth
KFN int k_json_parse(const char* s, unsigned long n, unsigned long sp1, unsigned long sp2, unsigned opts, jev* ev, unsigned cap, unsigned* nev) {
    // The parser is built as raw typed storage and its members are initialised directly (DESIGN 2.1): the real constructor only copies option
    // values, but it reads them through a virtual base of the options class (vbase offsets fetched from a vtable), which defeats constant
    // propagation in the symbolic executor.  What the constructor would do is replicated here: options -> fields, buffer/stack set up, reset().
    RAWOBJ(json_parser, pp); json_parser& p = *pp;
    p.max_nesting_depth_ = (int)(opts >> 8);
    p.allow_trailing_comma_ = (opts & 1) != 0; p.lossless_number_ = (opts & 2) != 0; p.lossless_bignum_ = (opts & 4) != 0; p.allow_comments_ = (opts & 8) != 0;
    new (&p.inf_to_str_) std::string(); new (&p.neginf_to_str_) std::string(); new (&p.nan_to_str_) std::string();
    new (&p.err_handler_) std::function<bool(json_errc, const ser_context&)>(default_json_parsing());
    new (&p.buffer_) std::string();
    p.buffer_.reserve(24);   // like the real constructor's reserve(256): the text buffer lives in its own heap object, not in the parser's SSO bytes
    new (&p.state_stack_) std::vector<parse_state>();
    p.state_stack_.reserve(8);
    p.line_ = 1; p.more_ = true; p.state_ = parse_state::start;
    jrec v(ev, cap);
    std::error_code ec;
    if (sp1 > n) sp1 = n; if (sp2 > n) sp2 = n; if (sp2 < sp1) sp2 = sp1;
    const unsigned long cb[4] = {0, sp1, sp2, n};
    unsigned ci = 0;   // next chunk to deliver
    auto next_chunk = [&]() { while (ci < 3) { unsigned long b = cb[ci], e = cb[ci + 1]; ++ci; if (e > b) { p.update(s + b, e - b); return; } } };
    auto src_eof = [&]() { unsigned k = ci; while (k < 3) { if (cb[k + 1] > cb[k]) return false; ++k; } return true; };
    // basic_json_reader::read_next
    p.reset();
    while (!p.stopped()) {
        if (p.source_exhausted()) next_chunk();
        bool eof = p.source_exhausted();
        p.parse_some(v, ec);
        if (ec) { *nev = v.n; return ec.value(); }
        if (eof) { if (p.enter()) break; else if (!p.accept()) { *nev = v.n; return (int)json_errc::unexpected_eof; } }
    }
    p.skip_whitespace();
    while (!src_eof()) { p.skip_whitespace(); if (p.source_exhausted()) next_chunk(); else break; }
    // basic_json_reader::check_done
    if (src_eof()) { p.check_done(ec); }
    else { do { if (p.source_exhausted()) next_chunk(); if (!p.source_exhausted()) { p.check_done(ec); if (ec) break; } } while (!(p.source_exhausted() && src_eof())); }
    *nev = v.n;
    return ec ? ec.value() : 0;
}
