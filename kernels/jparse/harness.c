/* harnesses for kernel "jparse" (C03 K3.1 split-equivalence by self-composition; C02 K2.1 parser vs RFC 8259 reference; C10 depth; C05) */
#include "kernel.c"
#include "vharness.h"
#define NEED_THROWS
#define NEED_STRING_NOGROW
#define NEED_STRING_REPLACE
#include "vmodels.h"
#ifndef L
#define L 2
#endif
#ifndef MAXEV
#define MAXEV (L + 2)
#endif
#ifndef DEPTH
#define DEPTH 3
#endif
INPUT_ARR(u8, IN_s, L) INPUT(u64, IN_sp1) INPUT(u64, IN_sp2) INPUT(u32, IN_opts)
#ifndef REPLAY
/* strtod by contract: consumes the whole NUL-terminated text (the parser's automaton has already validated it) and returns a finite double that is an
   INJECTIVE function of the text (<= 6 chars), so "same double" <=> "same literal text handed to strtod". */
double strtod(u8* s, u8** endp) {
  u64 acc = 0, n = 0; int done = 0;
  for (int i = 0; i < 7; i++) { if (!done) { if (s[i] == 0) done = 1; else { acc = (acc << 8) | s[i]; n++; } } }
  P(done && n <= 6, "strtod model bound: literal longer than 6 chars");
  *endp = s + n;
  return irc_bits2d(0x4000000000000000ULL | (acc << 3) | n);
}
void _ZSt25__throw_bad_function_callv(void) { P(0, "std::bad_function_call"); PATH_END(); }
#endif
static int same_ev(struct S_struct_2ejev* a, struct S_struct_2ejev* b) {
  if (a->f0 != b->f0 || a->f1 != b->f1 || a->f2 != b->f2 || a->f3 != b->f3) return 0;
  for (int i = 0; i < 8; i++) if (a->f4.a[i] != b->f4.a[i]) return 0;
  return 1;
}
static u8* mkin(void) { HAVOC_ARR(IN_s, L); u8* s = malloc(L ? L : 1); ASSUME(s != 0); if (L) memcpy(s, IN_s, L); return s; }
static u32 mkopts(void) { HAVOC(IN_opts); ASSUME((IN_opts & ~0xfu) == 0);
#ifndef COMMENTS
  ASSUME((IN_opts & 8) == 0);
#endif
  return IN_opts | (DEPTH << 8); }

/* whole delivery vs delivery in up to three consecutive chunks: same error code, same events */
static void split_at(u8* s, u32 opts, u64 sp1, u64 sp2) {
  struct S_struct_2ejev evA[MAXEV], evB[MAXEV]; u32 nA = 0, nB = 0;
  u32 ecA = k_json_parse(s, L, L, L, opts, evA, MAXEV, &nA);
  u32 ecB = k_json_parse(s, L, sp1, sp2, opts, evB, MAXEV, &nB);
  P(ecA == ecB, "same outcome (error code) whole vs split delivery");
  P(nA == nB, "same number of events whole vs split delivery");
  for (int i = 0; i < MAXEV; i++) if ((u32)i < nA && (u32)i < nB) P(same_ev(&evA[i], &evB[i]), "same events (kind, tag, value, string bytes) whole vs split delivery");
  WIT(ecA == 0 && nA >= 1 && sp1 > 0 && sp1 < L);
}
HARNESS(h_split_sym) {
  u8* s = mkin(); u32 opts = mkopts();
  HAVOC(IN_sp1); HAVOC(IN_sp2); ASSUME(IN_sp1 <= IN_sp2 && IN_sp2 <= L);
  split_at(s, opts, IN_sp1, IN_sp2);
}
/* one concrete split point per call site (symbolic execution keeps chunk boundaries constant) */
#define SP(i) else if (IN_sp1 == i) split_at(s, opts, i, L);
HARNESS(h_split1) {
  u8* s = mkin(); u32 opts = mkopts();
  HAVOC(IN_sp1); ASSUME(IN_sp1 <= L); IN_sp2 = L;
  if (0) {} SP(0) SP(1) SP(2) SP(3) SP(4) SP(5) SP(6) SP(7) SP(8)
}
