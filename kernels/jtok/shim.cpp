// kernel "jtok": the REAL basic_json_parser<char>::parse_number / parse_string (and what they call: end_integer_value, end_fraction_value,
// end_string_value, append_to_codepoint, unicode_traits::convert/validate) entered from ANY saved token state, driven over one or two input chunks
// exactly as parse_some_ drives them (state_ == number/string => input_ptr_ = parse_xxx(input_ptr_, visitor, ec) while input remains).
#include "vshim.h"
#include <jsoncons/json_options.hpp>
#include <jsoncons/json_parser.hpp>
using namespace jsoncons;
struct jev { unsigned char kind; unsigned char tag; unsigned short len; unsigned long long bits; unsigned char str[8]; };
enum { J_NONE = 0, J_BEGIN_OBJECT, J_END_OBJECT, J_BEGIN_ARRAY, J_END_ARRAY, J_KEY, J_NULL, J_BOOL, J_STRING, J_UINT, J_INT, J_DOUBLE, J_HALF, J_BYTES };
struct jrec final : basic_json_visitor<char> {
    jev* out; unsigned n; unsigned cap;
    jrec(jev* o, unsigned c) : out(o), n(0), cap(c) {}
    void put(unsigned char k, semantic_tag t, unsigned long long b, const char* s = nullptr, unsigned long l = 0) {
        if (n < cap) { jev& e = out[n]; e.kind = k; e.tag = (unsigned char)t; e.bits = b; e.len = (unsigned short)l; for (unsigned i = 0; i < 8; ++i) e.str[i] = (s && i < l) ? (unsigned char)s[i] : 0; }
        n++;
    }
    void visit_flush() override {}
    bool visit_begin_object(semantic_tag t, const ser_context&, std::error_code&) override { put(J_BEGIN_OBJECT, t, 0); return true; }
    bool visit_end_object(const ser_context&, std::error_code&) override { put(J_END_OBJECT, semantic_tag::none, 0); return true; }
    bool visit_begin_array(semantic_tag t, const ser_context&, std::error_code&) override { put(J_BEGIN_ARRAY, t, 0); return true; }
    bool visit_end_array(const ser_context&, std::error_code&) override { put(J_END_ARRAY, semantic_tag::none, 0); return true; }
    bool visit_key(const string_view_type& s, const ser_context&, std::error_code&) override { put(J_KEY, semantic_tag::none, 0, s.data(), s.size()); return true; }
    bool visit_null(semantic_tag t, const ser_context&, std::error_code&) override { put(J_NULL, t, 0); return true; }
    bool visit_bool(bool v, semantic_tag t, const ser_context&, std::error_code&) override { put(J_BOOL, t, v); return true; }
    bool visit_string(const string_view_type& s, semantic_tag t, const ser_context&, std::error_code&) override { put(J_STRING, t, 0, s.data(), s.size()); return true; }
    bool visit_byte_string(const byte_string_view&, semantic_tag t, const ser_context&, std::error_code&) override { put(J_BYTES, t, 0); return true; }
    bool visit_uint64(uint64_t v, semantic_tag t, const ser_context&, std::error_code&) override { put(J_UINT, t, v); return true; }
    bool visit_int64(int64_t v, semantic_tag t, const ser_context&, std::error_code&) override { put(J_INT, t, (unsigned long long)v); return true; }
    bool visit_half(uint16_t v, semantic_tag t, const ser_context&, std::error_code&) override { put(J_HALF, t, v); return true; }
    bool visit_double(double v, semantic_tag t, const ser_context&, std::error_code&) override { unsigned long long b; __builtin_memcpy(&b, &v, 8); put(J_DOUBLE, t, b); return true; }
};
struct tokres { int ec; unsigned sub; unsigned pstate; unsigned cp; unsigned cp2; unsigned more; unsigned long consumed; unsigned nbuf; unsigned char buf[16]; unsigned nev; jev ev[2]; unsigned bound; };
// kind: 0 = string token, 1 = number token; sub = saved parse_string_state / parse_number_state; pre = text already in buffer_
// parent: 0 root, 1 array, 2 member_name ; opts bit1 lossless_number bit2 lossless_bignum
KFN void k_tok(unsigned kind, unsigned sub, unsigned cp, unsigned cp2, const char* pre, unsigned npre, const char* s, unsigned long n, unsigned long split, unsigned parent, unsigned opts, unsigned maxcalls, tokres* r) {
    RAWOBJ(json_parser, pp); json_parser& p = *pp;
    p.max_nesting_depth_ = 8; p.lossless_number_ = (opts & 2) != 0; p.lossless_bignum_ = (opts & 4) != 0;
    new (&p.inf_to_str_) std::string(); new (&p.neginf_to_str_) std::string(); new (&p.nan_to_str_) std::string();
    new (&p.err_handler_) std::function<bool(json_errc, const ser_context&)>(default_json_parsing());
    new (&p.buffer_) std::string(); p.buffer_.reserve(24);
    new (&p.state_stack_) std::vector<parse_state>(); p.state_stack_.reserve(8);
    p.line_ = 1; p.more_ = true;
    p.state_stack_.push_back(parse_state::root);
    if (parent == 1) p.state_stack_.push_back(parse_state::array); else if (parent == 2) { p.state_stack_.push_back(parse_state::object); p.state_stack_.push_back(parse_state::member_name); }
    const parse_state mine = kind ? parse_state::number : parse_state::string;
    p.state_ = mine; p.string_state_ = (parse_string_state)sub; p.number_state_ = (parse_number_state)sub; p.cp_ = cp; p.cp2_ = cp2;
    for (unsigned i = 0; i < npre; ++i) p.buffer_.push_back(pre[i]);
    jev* ev = r->ev; jrec v(ev, 2);
    std::error_code ec;
    if (split > n) split = n;
    const unsigned long cb[3] = {0, split, n};
    unsigned long consumed = 0; unsigned driver_bound = 0;
    for (unsigned c = 0; c < 2; ++c) {
        if (c == 1 && cb[2] == cb[1]) break;
        p.update(s + cb[c], cb[c + 1] - cb[c]);
        // parse_some_'s loop, with an explicit (constant) bound on the number of calls per chunk; running into the bound is reported (driver_bound)
        unsigned calls = 0;
        // the first call is unconditional: parse_some_ calls parse_xxx right after consuming the token's first character, even when the chunk ends there
        for (; calls < maxcalls && (p.input_ptr_ < p.input_end_ || (c == 0 && calls == 0)) && p.more_ && !ec && p.state_ == mine; ++calls)
            p.input_ptr_ = kind ? p.parse_number(p.input_ptr_, v, ec) : p.parse_string(p.input_ptr_, v, ec);
        if (calls == maxcalls && p.input_ptr_ < p.input_end_ && p.more_ && !ec && p.state_ == mine) driver_bound = 1;
        consumed = cb[c] + (unsigned long)(p.input_ptr_ - (s + cb[c]));
        if (ec || !p.more_ || p.state_ != mine || p.input_ptr_ != p.input_end_) break;
    }
    r->ec = ec ? ec.value() : 0; r->sub = kind ? (unsigned)p.number_state_ : (unsigned)p.string_state_; r->pstate = (unsigned)p.state_;
    r->cp = p.cp_; r->cp2 = p.cp2_; r->more = p.more_; r->consumed = consumed; r->nbuf = (unsigned)p.buffer_.size(); r->nev = v.n; r->bound = driver_bound;
    { const unsigned long sz = p.buffer_.size(); const char* d = p.buffer_.data();   // loop-free copy-out (keeps the job's unwinding bound small)
#define CPB(i) r->buf[i] = i < sz ? (unsigned char)d[i] : 0;
      CPB(0) CPB(1) CPB(2) CPB(3) CPB(4) CPB(5) CPB(6) CPB(7) CPB(8) CPB(9) CPB(10) CPB(11) CPB(12) CPB(13) CPB(14) CPB(15) }
}
