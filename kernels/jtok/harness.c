/* harnesses for kernel "jtok": C03 K3.2 (token-level split equivalence from states produced by a concrete prefix), C02 K2.2 (number / string automata
   vs references written from RFC 8259), C04 K4.4 (overflow routing) */
#include "kernel.c"
#include "vharness.h"
#define NEED_THROWS
#define NEED_STRING_NOGROW
#define NEED_STRING_REPLACE
#include "vmodels.h"
#ifndef NS
#define NS 2
#endif
#ifndef PFX
#define PFX ""
#endif
#ifndef KIND
#define KIND 0
#endif
#ifndef SUB0
#define SUB0 0
#endif
#ifndef PRE
#define PRE ""
#endif
#ifndef PARENT
#define PARENT 0
#endif
#define PLEN (sizeof(PFX) - 1)
#define NPRE (sizeof(PRE) - 1)
#define TOT (PLEN + NS)
INPUT_ARR(u8, IN_s, NS) INPUT(u64, IN_k) INPUT(u32, IN_opts)
#ifndef REPLAY
/* strtod by contract: consumes the NUL-terminated literal (already validated by the automaton), finite result, INJECTIVE in the text (<= 6 chars) */
double strtod(u8* s, u8** endp) {
  u64 acc = 0, n = 0; int done = 0;
  for (int i = 0; i < 7; i++) { if (!done) { if (s[i] == 0) done = 1; else { acc = (acc << 8) | s[i]; n++; } } }
  P(done && n <= 6, "strtod model bound: literal longer than 6 chars");
  *endp = s + n;
  return irc_bits2d(0x4000000000000000ULL | (acc << 3) | n);
}
void _ZSt25__throw_bad_function_callv(void) { P(0, "std::bad_function_call"); PATH_END(); }
#endif
static const u8 pfx[] = PFX; static const u8 pre[] = PRE;
static u8* mkin(void) {
  HAVOC_ARR(IN_s, NS);
  u8* s = malloc(TOT ? TOT : 1); ASSUME(s != 0);
  for (unsigned i = 0; i < PLEN; i++) s[i] = pfx[i];
  for (unsigned i = 0; i < NS; i++) s[PLEN + i] = IN_s[i];
  return s;
}
static int same_ev(struct S_struct_2ejev* a, struct S_struct_2ejev* b) {
  if (a->f0 != b->f0 || a->f1 != b->f1 || a->f2 != b->f2 || a->f3 != b->f3) return 0;
  for (int i = 0; i < 8; i++) if (a->f4.a[i] != b->f4.a[i]) return 0;
  return 1;
}
static void run(u8* s, u64 split, struct S_struct_2etokres* r) {
  u8 prebuf[4]; for (unsigned i = 0; i < 4; i++) prebuf[i] = i < NPRE ? pre[i] : 0;
  k_tok(KIND, SUB0, 0, 0, prebuf, NPRE, s, TOT, split, PARENT, IN_opts, KIND ? 2 : NS + 2, r);
  P(r->f11 == 0, "driver: bound on parse_xxx calls per chunk not exceeded");
}
static void cmp(struct S_struct_2etokres* a, struct S_struct_2etokres* b) {
  P(a->f0 == b->f0, "same error code whole vs split delivery");
  P(a->f6 == b->f6, "same number of bytes consumed whole vs split delivery");
  P(a->f2 == b->f2 && a->f5 == b->f5, "same parser state / more flag whole vs split delivery");
  if (a->f0 == 0) {
    P(a->f1 == b->f1, "same saved token sub-state whole vs split delivery");
    P(a->f9 == b->f9, "same number of events whole vs split delivery");
    if (a->f9 >= 1 && b->f9 >= 1) P(same_ev(&a->f10.a[0], &b->f10.a[0]), "same event (kind, tag, value, bytes) whole vs split delivery");
    if (a->f2 == (KIND ? 17 : 15)) { /* token still open: accumulated text and partial code points must agree */
      P(a->f7 == b->f7, "same buffered text length whole vs split delivery");
      int same = 1; for (int i = 0; i < 16; i++) if (a->f8.a[i] != b->f8.a[i]) same = 0; P(same, "same buffered text whole vs split delivery");
    }
  }
}
#define SPL(i) else if (IN_k == i) { run(s, i, &B); cmp(&A, &B); }
HARNESS(h_split) {
  u8* s = mkin(); HAVOC(IN_opts); ASSUME((IN_opts & ~6u) == 0);
  HAVOC(IN_k);
#ifdef KSPLIT
  IN_k = KSPLIT;   /* split position concrete per job */
#endif
  ASSUME(IN_k < TOT);
  struct S_struct_2etokres A, B;
  run(s, TOT, &A);
  if (0) {} SPL(0) SPL(1) SPL(2) SPL(3) SPL(4) SPL(5) SPL(6) SPL(7) SPL(8) SPL(9) SPL(10) SPL(11) SPL(12) SPL(13) SPL(14) SPL(15) SPL(16)
  WIT(A.f0 == 0 && IN_k + 1 == TOT);
}

/* ---------------- C02 K2.2: the number automaton accepts exactly the RFC 8259 number grammar (one chunk, value terminated by ',') ---------------- */
/* tokres: f0 ec, f1 sub, f2 pstate, f3 cp, f4 cp2, f5 more, f6 consumed, f7 nbuf, f8 buf, f9 nev, f10 ev[2], f11 bound */
/* reference: text = PRE PFX s[0..NS) ; the number is the longest prefix of text+... that ends before the first byte that cannot continue a number */
static int ref_number(const u8* t, unsigned n, unsigned* len, int* is_int) {
  unsigned p = 0; *is_int = 1;
  if (p < n && t[p] == '-') p++;
  if (p >= n) return -1;                       /* need more input */
  if (t[p] == '0') p++; else if (t[p] >= '1' && t[p] <= '9') { for (int i = 0; i < 24; i++) if (p < n && t[p] >= '0' && t[p] <= '9') p++; } else return 0;
  if (p < n && t[p] >= '0' && t[p] <= '9') return 0;            /* leading zero followed by a digit */
  if (p < n && t[p] == '.') { p++; *is_int = 0; if (p >= n) return -1; if (!(t[p] >= '0' && t[p] <= '9')) return 0; for (int i = 0; i < 24; i++) if (p < n && t[p] >= '0' && t[p] <= '9') p++; }
  if (p < n && (t[p] == 'e' || t[p] == 'E')) { p++; *is_int = 0; if (p < n && (t[p] == '+' || t[p] == '-')) p++; if (p >= n) return -1; if (!(t[p] >= '0' && t[p] <= '9')) return 0; for (int i = 0; i < 24; i++) if (p < n && t[p] >= '0' && t[p] <= '9') p++; }
  if (p >= n) return -1;                       /* the number may continue in the next chunk */
  *len = p; return 1;                          /* terminated by t[p] */
}
HARNESS(h_number) {
  u8* s = mkin(); HAVOC(IN_opts); IN_opts = 0;
  struct S_struct_2etokres A; run(s, TOT, &A);
  u8 full[24]; unsigned nf = 0; for (unsigned i = 0; i < NPRE; i++) full[nf++] = pre[i]; for (unsigned i = 0; i < TOT; i++) full[nf++] = s[i];
  unsigned len = 0; int is_int = 0; int rr = ref_number(full, nf, &len, &is_int);
  if (rr == 0) P(A.f0 != 0, "a byte sequence that cannot begin an RFC 8259 number is rejected");
  if (rr == 1) { u8 term = full[len]; int termok = (term == ',' || term == ']' || term == '}' || term == ' ' || term == '\t' || term == '\n' || term == '\r');
    if (termok) { P(A.f0 == 0 && A.f9 == 1, "a complete RFC 8259 number followed by a structural character or white space is accepted as one value");
      P(A.f6 + NPRE == len || A.f6 + NPRE == len + 1, "the number token ends where the grammar says");
      P((A.f10.a[0].f0 == 9 || A.f10.a[0].f0 == 10) == (is_int != 0), "integer literals are delivered as integers, literals with a fraction or exponent as doubles"); }
    else if (term != '/') P(A.f0 != 0, "a number followed by a byte that cannot follow a value is rejected"); }
  if (rr == -1) P(A.f0 == 0 && A.f9 == 0, "an incomplete number is neither rejected nor delivered: the automaton waits for more input");
  WIT(rr == 1 && A.f0 == 0); WIT(rr == 0);
}
