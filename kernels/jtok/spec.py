"""kernel jtok: the REAL basic_json_parser<char>::parse_string / parse_number (+ end_*_value, append_to_codepoint, convert, validate) driven over one or two
chunks as parse_some_ drives them; every start state is produced by the real code from a CONCRETE prefix, followed by symbolic bytes.
Serves C03 (K3.2), C02 (K2.2), C04 (K4.4), C05."""
ASSUMPTIONS = ['jtok/h_split: token = concrete prefix (named in the job) + NS fully symbolic bytes; split point anywhere (also inside the prefix); lossless_number/lossless_bignum symbolic; parent = root',
               'jtok: parser object built raw (no options object), text buffer pre-reserved on the heap (like the real constructor), capacity 24 (asserted)']
STUB_NOTES = ['strtod by contract: injective finite function of the literal (<= 6 chars)', 'std::string::_M_replace model; _M_mutate cut (capacity bound asserted)', 'recording visitor']
STUBS = ['_ZNSt7__cxx1112basic_stringIcSt11char_traitsIcESaIcEE10_M_replaceEmmPKcm', '_ZNSt7__cxx1112basic_stringIcSt11char_traitsIcESaIcEE9_M_mutateEmmPKcm']

STR_PREFIXES = ['', 'a', '\\\\', '\\\\u', '\\\\u1', '\\\\u12', '\\\\u123', '\\\\uD83D', '\\\\uD83D\\\\', '\\\\uD83D\\\\u', '\\\\uD83D\\\\uD', '\\\\uD83D\\\\uDE', '\\\\uD83D\\\\uDE0', '\\\\u00e9', 'x\\\\n']
# number tokens: (first char consumed by parse_some_ -> initial sub-state, text already in buffer_), then the prefix fed through parse_number
NUM_STARTS = [(0, '-'), (1, '0'), (2, '1')]
NUM_PREFIXES = {0: ['', '0', '1', '0.', '1.5', '1e', '1e-', '1e5'], 1: ['', '.', '.5', 'e', 'e+', 'e5'], 2: ['', '2', '.', '.5', 'e', 'E-', 'e5']}

def cstr(s):
    return '"%s"' % s

def jobs(tier):
    J = []
    import os
    if not os.environ.get('VERIF_EXPERIMENTAL'):
        return J   # measured (DESIGN 6.3): no job of this kernel gives a verdict within 40 min / 8 GB (the real JSON parser automaton); registered checks do not run it, nothing is claimed from it
    for sub, first in (NUM_STARTS if tier == 'thorough' else []):   # > 7 min per job even in one chunk: thorough tier only
        for i, pf in enumerate(NUM_PREFIXES[sub]):
            J.append(dict(id='number_%d_%02d' % (sub, i), harness='h_number', props=['C02'], unwind=max(9, len(pf) + 3 + 5), defs=dict(KIND=1, SUB0=sub, PRE=cstr(first), PFX=cstr(pf), NS=3), timeout=2400, mem_gb=6,
                          desc='parse_number (one chunk): accepts exactly the RFC 8259 number grammar, integer vs floating kind, token end', bound='number = %s%s + 3 symbolic bytes' % (first, pf)))
    if tier != 'thorough':
        return J   # split-delivery jobs: 2-15 min of symbolic execution per job, thorough tier only (DESIGN 6.3)
    ns = 3 if tier == 'thorough' else 2
    for i, pf in enumerate(STR_PREFIXES):
        J.append(dict(id='split_str_%02d' % i, harness='h_split', props=['C03'], unwind=max(9, len(pf.replace('\\\\', '\\')) + ns + 4), defs=dict(KIND=0, SUB0=0, PFX=cstr(pf), NS=ns), timeout=900, mem_gb=6,
                      desc='parse_string: whole vs two-chunk delivery at every split point agree on error, consumed bytes, saved state, buffered text, event',
                      bound='string body = prefix %s + %d symbolic bytes' % (pf.replace('\\\\', '\\'), ns)))
    for sub, first in NUM_STARTS:
        for i, pf in enumerate(NUM_PREFIXES[sub]):
            J.append(dict(id='split_num_%d_%02d' % (sub, i), harness='h_split', props=['C03'], unwind=max(9, len(pf) + ns + 5), defs=dict(KIND=1, SUB0=sub, PRE=cstr(first), PFX=cstr(pf), NS=ns), timeout=900, mem_gb=6,
                          desc='parse_number: whole vs two-chunk delivery at every split point agree (error, consumed, saved state, buffered text, event)',
                          bound='number = %s%s + %d symbolic bytes' % (first, pf, ns)))
    return J
