/* harness for kernel "csvenc" (C18 K18.1: quoting decision and escaping of one CSV field) */
#include "kernel.c"
#include "vharness.h"
#define NEED_THROWS
#define NEED_STRING_NOGROW
#include "vmodels.h"
#ifndef N
#define N 3
#endif
#ifdef CTOR
#define KFIELD k_csv_field_ctor
#else
#define KFIELD k_csv_field
#endif
INPUT_ARR(u8, IN_s, N) INPUT(u32, IN_style) INPUT(u32, IN_delim) INPUT(u32, IN_quote) INPUT(u32, IN_esc)
enum { QS_MINIMAL = 0, QS_ALL = 1, QS_NONNUMERIC = 2, QS_NONE = 3 };
HARNESS(h_field) {
  HAVOC_ARR(IN_s, N); HAVOC(IN_style); HAVOC(IN_delim); HAVOC(IN_quote); HAVOC(IN_esc);
  ASSUME(IN_style <= 2);                                   /* quote_style none is the caller's explicit request not to quote: outside the claim */
  ASSUME(IN_delim < 256 && IN_quote < 256 && IN_esc < 256);
  ASSUME(IN_delim != IN_quote && IN_delim != IN_esc && IN_delim != '\r' && IN_delim != '\n' && IN_quote != '\r' && IN_quote != '\n' && IN_esc != '\r' && IN_esc != '\n');
  u8* s = malloc(N ? N : 1); ASSUME(s != 0); if (N) memcpy(s, IN_s, N);
  int has_special = 0, has_esc = 0;
  for (int i = 0; i < N; i++) { u8 c = s[i]; if (c == IN_delim || c == IN_quote || c == '\r' || c == '\n') has_special = 1; if (c == IN_esc) has_esc = 1; }
  u8 out[2 * N + 4]; memset(out, 0, sizeof out); u64 w = KFIELD(s, N, IN_style, (u8)IN_delim, (u8)IN_quote, (u8)IN_esc, out, 2 * N + 4);
  P(w <= 2 * N + 2, "output length bounded by 2n+2"); ASSUME(w <= 2 * N + 2);
  int quoted = w >= 2 && out[0] == IN_quote && out[w - 1] == IN_quote && (IN_style != QS_MINIMAL || has_special || 1);
  if (IN_style == QS_ALL || IN_style == QS_NONNUMERIC) P(w >= 2 && out[0] == IN_quote && out[w - 1] == IN_quote, "styles all/nonnumeric always quote strings");
  if (has_special) P(w >= 2 && out[0] == IN_quote && out[w - 1] == IN_quote, "a field containing the delimiter, the quote character, CR or LF is always quoted");
  /* reference un-quoter for the generalised RFC 4180 field syntax */
  int isq = (IN_style != QS_MINIMAL) || has_special;
  u64 p = isq ? 1 : 0, end = isq ? w - 1 : w; int ok = 1;
  if (isq && w < 2) ok = 0;
  for (int i = 0; i < N; i++) { if (!ok) break; if (p >= end) { ok = 0; break; } u8 c = out[p];
    if (isq && c == IN_esc && p + 1 < end && (out[p + 1] == IN_quote || out[p + 1] == IN_esc)) { c = out[p + 1]; p += 2; }   /* escape + quote, or (distinct escape character) escape + escape */
    else if (isq && c == IN_esc && IN_esc != IN_quote) { ok = 0; break; }   /* a lone escape character inside quotes cannot be read back */
    else { if (isq && c == IN_quote) { ok = 0; break; } p += 1; }
    if (c != s[i]) ok = 0; }
  P(ok && p == end, "un-quoting the written field gives back the field");
  WIT(N == 0 ? 1 : (has_special && IN_style == QS_MINIMAL && w == N + 2));
}

/* option plumbing: an encoder built by its real constructor from csv_options quotes with exactly the characters the options name */
INPUT(u32, IN_sub)
HARNESS(h_plumb) {
  HAVOC(IN_style); HAVOC(IN_delim); HAVOC(IN_quote); HAVOC(IN_esc); HAVOC(IN_sub);
  ASSUME(IN_style <= 3 && IN_delim < 256 && IN_quote < 256 && IN_esc < 256 && IN_sub < 256);
  u8 out[5]; memset(out, 0xee, 5); k_csv_plumb(IN_style, (u8)IN_delim, (u8)IN_quote, (u8)IN_esc, (u8)IN_sub, out);
  P(out[0] == IN_style, "encoder quote_style is the option's");
  P(out[1] == IN_delim, "encoder field delimiter is the option's");
  P(out[2] == IN_quote, "encoder quote character is the option's");
  P(out[3] == IN_esc, "encoder quote escape character is the option's");
  P(out[4] == IN_sub, "encoder subfield delimiter is the option's");
  WIT(IN_quote != IN_esc && IN_delim == ';');
}
