#include "vselftest.h"
extern "C" { unsigned long k_csv_field(const char*, unsigned long, unsigned, char, char, char, char*, unsigned long); unsigned long c_k_csv_field(const char*, unsigned long, unsigned, char, char, char, char*, unsigned long); }
ST_MAIN_BEGIN
  // fields in the style of the repository's csv encoder tests plus seeded random fields and option characters
  const char* fx[] = {"", "a", "a,b", "say \"hi\"", "line\nbreak", "x\ry", " lead", "trail ", "1.5", "\"", ",", "a;b", "tab\there"};
  for (const char* f : fx) for (unsigned st = 0; st < 4; st++) for (int k = 0; k < 3; k++) { char d = ",;\t"[k], q = "\"'\""[k], e = "\"\\'"[k]; char o1[64] = {0}, o2[64] = {0};
    ST_CHECK(k_csv_field(f, strlen(f), st, d, q, e, o1, 64) == c_k_csv_field(f, strlen(f), st, d, q, e, o2, 64) && !memcmp(o1, o2, 64)); }
  for (int it = 0; it < 100000; it++) { char f[12]; unsigned long n = st_rand() % 12; for (unsigned long i = 0; i < n; i++) f[i] = st_rand() % 3 ? "\",;\n\r'\\ ab"[st_rand() % 11] : (char)st_rand();
    char o1[64] = {0}, o2[64] = {0}; unsigned st = st_rand() % 4; char d = (char)st_rand(), q = (char)st_rand(), e = st_rand() % 2 ? q : (char)st_rand();
    ST_CHECK(k_csv_field(f, n, st, d, q, e, o1, 64) == c_k_csv_field(f, n, st, d, q, e, o2, 64) && !memcmp(o1, o2, 64)); }
ST_MAIN_END
