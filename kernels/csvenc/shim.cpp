// kernel "csvenc": basic_csv_encoder<char,Sink>::write_string_value / escape_string on a raw encoder (only the quoting options are initialised)
#include "vshim.h"
#include <jsoncons_ext/csv/csv_encoder.hpp>
using namespace jsoncons;
using enc_t = csv::basic_csv_encoder<char, fsink>;
KFN unsigned long k_csv_field(const char* s, unsigned long n, unsigned style, char delim, char quote, char esc, char* out, unsigned long cap) {
    RAWOBJ(enc_t, e);
    e->quote_style_ = (csv::quote_style_kind)style; e->field_delimiter_ = delim; e->quote_char_ = quote; e->quote_escape_char_ = esc;
    std::string str;
    e->write_string_value(jsoncons::string_view(s, n), str);
    unsigned long w = str.size();
    for (unsigned long i = 0; i < w && i < cap; ++i) out[i] = str[i];
    return w;
}
// the same field writer on an encoder built by its REAL constructor from real csv_options (covers the option -> member plumbing)
KFN unsigned long k_csv_field_ctor(const char* s, unsigned long n, unsigned style, char delim, char quote, char esc, char* out, unsigned long cap) {
    csv::csv_options o; o.quote_style((csv::quote_style_kind)style).field_delimiter(delim).quote_char(quote).quote_escape_char(esc);
    RAWCTOR(enc_t, raw); enc_t* e = new (raw) enc_t(fsink{out, 0, 0}, o);
    std::string str;
    e->write_string_value(jsoncons::string_view(s, n), str);
    unsigned long w = str.size();
    for (unsigned long i = 0; i < w && i < cap; ++i) out[i] = str[i];
    return w;
}
// option -> member plumbing alone: the REAL constructor from real csv_options, then the quoting members are read back (no field is written)
KFN void k_csv_plumb(unsigned style, char delim, char quote, char esc, char sub, unsigned char* out5) {
    csv::csv_options o; o.quote_style((csv::quote_style_kind)style).field_delimiter(delim).quote_char(quote).quote_escape_char(esc).subfield_delimiter(sub);
    RAWCTOR(enc_t, raw); enc_t* e = new (raw) enc_t(fsink{(char*)out5, 0, 0}, o);
    out5[0] = (unsigned char)e->quote_style_; out5[1] = (unsigned char)e->field_delimiter_; out5[2] = (unsigned char)e->quote_char_; out5[3] = (unsigned char)e->quote_escape_char_; out5[4] = (unsigned char)e->subfield_delimiter_;
}
