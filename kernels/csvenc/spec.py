"""kernel csvenc: basic_csv_encoder::write_string_value + escape_string on a raw encoder.  Serves C18 (K18.1: encoder half of the quoting contract)."""
ASSUMPTIONS = ['csvenc/h_field: quote_style in {minimal, all, nonnumeric}; delimiter, quote and escape characters arbitrary bytes, pairwise distinct from the delimiter and not CR/LF; when quote_escape_char != quote_char the field does not contain the escape character',
               'csvenc: field length concrete per job; agreement with csv_parser (not lowered) is outside the claim: the oracle is a reference un-quoter for the generalised RFC 4180 field syntax']
STUB_NOTES = ['raw zeroed encoder object, only quote_style_/field_delimiter_/quote_char_/quote_escape_char_ set', 'std::string is the real libstdc++ code on the SSO path; _M_mutate (reallocation) is cut with an assertion: strings <= 15 chars']
STUBS = ['_ZNSt7__cxx1112basic_stringIcSt11char_traitsIcESaIcEE9_M_mutateEmmPKcm']
def jobs(tier):
    return [dict(id='field_n%d' % n, harness='h_field', props=['C18'], unwind=2 * n + 6, defs=dict(N=n), timeout=600, mem_gb=8, desc='write_string_value: quoted whenever delimiter/quote/CR/LF present, always under all/nonnumeric; un-quoting gives the field back', bound='all fields of length %d x every delimiter/quote/escape byte x 3 styles' % n)
            for n in ([0, 1, 2, 3, 4] if tier == 'quick' else [0, 1, 2, 3, 4, 5, 6])]
