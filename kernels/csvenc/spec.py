"""kernel csvenc: basic_csv_encoder::write_string_value + escape_string on a raw encoder.  Serves C18 (K18.1: encoder half of the quoting contract)."""
ASSUMPTIONS = ['csvenc/h_field: quote_style in {minimal, all, nonnumeric}; delimiter, quote and escape characters arbitrary bytes, pairwise distinct from the delimiter and not CR/LF',
               'csvenc: field length concrete per job; agreement with csv_parser (not lowered) is outside the claim: the oracle is a reference un-quoter for the generalised RFC 4180 field syntax']
STUB_NOTES = ['raw zeroed encoder object, only quote_style_/field_delimiter_/quote_char_/quote_escape_char_ set', 'std::string is the real libstdc++ code on the SSO path; _M_mutate (reallocation) is cut with an assertion: strings <= 15 chars']
STUBS = ['_ZNSt7__cxx1112basic_stringIcSt11char_traitsIcESaIcEE9_M_mutateEmmPKcm']
def jobs(tier):
    # measured: the real constructor from csv_options (k_csv_field_ctor / k_csv_plumb: ~120 functions of string/vector member copies) gives no verdict in 40 min
    # (ctor_n1, ctor_n2) resp. 15 min (plumb); the plumbing job is kept as a deep job of the thorough tier only, the ctor_n* jobs were removed
    return ([dict(id='plumb', harness='h_plumb', props=['C18'], unwind=6, timeout=1800, mem_gb=8, desc='an encoder built by its real constructor from real csv_options carries exactly the quote style, delimiter, quote, escape and subfield characters the options name', bound='every style x every delimiter/quote/escape/subfield byte')] if tier == 'thorough' else []) + [dict(id='field_n%d' % n, harness='h_field', props=['C18'], unwind=2 * n + 6, defs=dict(N=n), timeout=600, mem_gb=8, desc='write_string_value: quoted whenever delimiter/quote/CR/LF present, always under all/nonnumeric; un-quoting gives the field back', bound='all fields of length %d x every delimiter/quote/escape byte x 3 styles' % n)
            for n in ([0, 1, 2, 3, 4] if tier == 'quick' else [0, 1, 2, 3, 4, 5, 6])]
