"""kernel sref: one string-registration step of the REAL basic_cbor_encoder with pack_strings (stringref extension, tags 25/256).  Serves C06 and C08 (stringref clause)."""
ASSUMPTIONS = ['sref/*: the encoder is built by its real constructor from cbor_options with pack_strings(true); the pre-state is ABSTRACT: next_stringref_ is any uint64 and the two reference tables claim any sizes with size(text) + size(bytes) == next_stringref_ (the representation invariant every history keeps); the tables contain no string equal to the one written (new_*) or exactly the one a first call registered (repeat_*)',
               'sref/*: string length concrete per job (0..12), content 7-bit ASCII letters (the registration decision does not read it); the red-black trees hold at most one node (more nodes = the same find/insert code on a longer path: outside the bound)']
STUB_NOTES = ['std::_Rb_tree_insert_and_rebalance (libstdc++ object code) modelled for insertion into an empty tree; any other call is reported', 'std::_Rb_tree_decrement: reaching it is reported (needs >= 2 nodes)', 'std::string on the SSO path (length <= 15)']
TRAP = r'_M_realloc_insert'
STUBS = ['_ZNSt7__cxx1112basic_stringIcSt11char_traitsIcESaIcEE9_M_mutateEmmPKcm']
def jobs(tier):
    J = []
    lens = [0, 2, 3, 4, 5, 6, 7, 10, 11] if tier == 'quick' else list(range(0, 13))
    for kind in ('bytes', 'text'):
        for n in lens:
            J.append(dict(id='new_%s_n%d' % (kind, n), harness='h_new', props=['C06', 'C08'], unwind=n + 4, defs=dict(LEN=n, TEXT=1 if kind == 'text' else 0), shim_defs=dict(LEN=n), timeout=600, mem_gb=6,
                          desc='a new %s string of length %d: registered (next index, own table +1) iff length >= the stringref threshold for the CURRENT number of registered strings, always written as a plain definite string' % (kind, n), bound='any number of registered strings (uint64) split anyhow between the two tables'))
        for n in ([2, 3, 4, 5] if tier == 'quick' else [2, 3, 4, 5, 7, 11]):
            J.append(dict(id='repeat_%s_n%d' % (kind, n), harness='h_repeat', props=['C06', 'C08'], unwind=max(n + 4, 10), defs=dict(LEN=n, TEXT=1 if kind == 'text' else 0, REPEAT=1), shim_defs=dict(LEN=n), timeout=600, mem_gb=6,
                          desc='the same %s string of length %d written again later: a tag-25 reference to exactly the index it was registered under, or the plain string again; a reference is only ever emitted for a string that a decoder following the stringref rules registered under that index' % (kind, n), bound='any index at first sight, any larger count at second sight'))
    return J
