// kernel "sref": one string-registration step of the REAL basic_cbor_encoder with pack_strings (stringref, tag 25/256) from an ABSTRACT reachable pre-state:
// next_stringref_ and the sizes of the two reference tables are arbitrary (sum == next_stringref_, the representation invariant), the tables hold no string equal
// to the one written ("new string") or - REPEAT - exactly the one registered by a first call.  One inductive step covers encoders with any number of strings.
#include "vshim.h"
#include <jsoncons_ext/cbor/cbor_encoder.hpp>
using namespace jsoncons;
using cbor_t = cbor::basic_cbor_encoder<bsink>;
struct sres { int ec; unsigned long next, n_text, n_bytes, n, pre; };
#ifndef LEN
#define LEN 3
#endif
template <bool TEXT> static inline void put(cbor_t* e, const unsigned char* s, std::error_code& ec) {
    ser_context ctx;
    if constexpr (TEXT) e->cbor_t::visit_string(jsoncons::string_view((const char*)s, LEN), semantic_tag::none, ctx, ec);
    else e->cbor_t::visit_byte_string(byte_string_view(s, LEN), semantic_tag::none, ctx, ec);
}
template <bool TEXT, bool REPEAT> static inline void step(unsigned long next, unsigned long n_text, unsigned long n_bytes, unsigned long next2, unsigned long n_text2, unsigned long n_bytes2, const unsigned char* s, unsigned char* buf, unsigned long cap, sres* r) {
    cbor::cbor_options o; o.pack_strings(true);
    RAWCTOR(cbor_t, raw); cbor_t* e = new (raw) cbor_t(bsink{buf, 0, cap}, o);
    e->next_stringref_ = next; e->stringref_map_._M_t._M_impl._M_node_count = n_text; e->bytestringref_map_._M_t._M_impl._M_node_count = n_bytes;
    std::error_code ec;
    if constexpr (REPEAT) {   // first occurrence (registered or not), then any number of other strings (abstracted: counters move to next2 / n_*2), then the same string again
        put<TEXT>(e, s, ec);
        e->next_stringref_ = next2; e->stringref_map_._M_t._M_impl._M_node_count = n_text2; e->bytestringref_map_._M_t._M_impl._M_node_count = n_bytes2;
    }
    r->pre = e->sink_.n;
    put<TEXT>(e, s, ec);
    r->ec = ec ? ec.value() : 0; r->next = e->next_stringref_; r->n_text = e->stringref_map_.size(); r->n_bytes = e->bytestringref_map_.size(); r->n = e->sink_.n;
}
KFN void k_sref_text_new(unsigned long a, unsigned long b, unsigned long c, const unsigned char* s, unsigned char* buf, unsigned long cap, sres* r) { step<true, false>(a, b, c, 0, 0, 0, s, buf, cap, r); }
KFN void k_sref_bytes_new(unsigned long a, unsigned long b, unsigned long c, const unsigned char* s, unsigned char* buf, unsigned long cap, sres* r) { step<false, false>(a, b, c, 0, 0, 0, s, buf, cap, r); }
KFN void k_sref_text_repeat(unsigned long a, unsigned long b, unsigned long c, unsigned long a2, unsigned long b2, unsigned long c2, const unsigned char* s, unsigned char* buf, unsigned long cap, sres* r) { step<true, true>(a, b, c, a2, b2, c2, s, buf, cap, r); }
KFN void k_sref_bytes_repeat(unsigned long a, unsigned long b, unsigned long c, unsigned long a2, unsigned long b2, unsigned long c2, const unsigned char* s, unsigned char* buf, unsigned long cap, sres* r) { step<false, true>(a, b, c, a2, b2, c2, s, buf, cap, r); }
