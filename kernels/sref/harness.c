/* harness for kernel "sref" (C06/C08 stringref clause): one registration step of the real CBOR encoder with pack_strings from an abstract pre-state */
#include "kernel.c"
#include "vharness.h"
#define NEED_THROWS
#define NEED_STRING_NOGROW
#include "vmodels.h"
#ifndef LEN
#define LEN 3
#endif
#ifndef TEXT
#define TEXT 0
#endif
#define CAP 64
#ifndef REPLAY
/* libstdc++ object code, modelled: insertion of node z below parent p into a tree with header h.  Only the empty-tree case (p == h) is in the bound. */
#define RBN struct S_struct_2estd_3a_3a_Rb_tree_node_base
void _ZSt29_Rb_tree_insert_and_rebalancebPSt18_Rb_tree_node_baseS0_RS_(u8 left, RBN* z, RBN* p, RBN* h) {
  P(p == h, "rb-tree model bound: insertion into an empty tree only"); ASSUME(p == h);
  z->f1 = h; z->f2 = 0; z->f3 = 0; z->f0 = 1 /* black */; h->f1 = z; h->f2 = z; h->f3 = z;
}
u8* _ZNSt7__cxx1112basic_stringIcSt11char_traitsIcESaIcEE9_M_createERmm(VSTR0* t, u64* c, u64 o) { P(0, "string model: capacity bound (15, SSO) exceeded"); PATH_END(); return 0; }
RBN* _ZSt18_Rb_tree_decrementPSt18_Rb_tree_node_base(RBN* x) { P(0, "rb-tree model bound: _Rb_tree_decrement needs a tree of >= 2 nodes"); PATH_END(); return x; }
#endif
/* stringref rules (http://cbor.schmorp.de/stringref): minimum length of a string that is assigned the next index n */
static u64 minlen(u64 n) { return n < 24 ? 3 : n < 256 ? 4 : n < 65536 ? 5 : n < 4294967296ULL ? 7 : 11; }
INPUT(u64, IN_next) INPUT(u64, IN_ntext) INPUT(u64, IN_next2) INPUT(u64, IN_ntext2)
static u8 str[LEN + 1];
static void mkstr(void) { for (int i = 0; i < LEN; i++) str[i] = 'a' + (i % 26); }
/* the bytes of a plain definite-length string item of LEN bytes (LEN <= 23) */
static int is_plain(const u8* b, u64 n) { if (n != LEN + 1 || b[0] != (TEXT ? 0x60 : 0x40) + LEN) return 0; for (int i = 0; i < LEN; i++) if (b[1 + i] != str[i]) return 0; return 1; }
/* tag 25 + unsigned integer head in the shortest form: the value, or -1 */
static int is_ref(const u8* b, u64 n, u64* v) {
  if (n < 3 || b[0] != 0xd8 || b[1] != 25) return 0;
  u8 ai = b[2] & 0x1f; if ((b[2] >> 5) != 0) return 0;
  if (ai < 24) { *v = ai; return n == 3; }
  int w = ai == 24 ? 1 : ai == 25 ? 2 : ai == 26 ? 4 : ai == 27 ? 8 : 0; if (!w || n != 3 + (u64)w) return 0;
  u64 a = 0; for (int i = 0; i < 8; i++) if (i < w) a = (a << 8) | b[3 + i]; *v = a; return 1;
}
HARNESS(h_new) {
  HAVOC(IN_next); HAVOC(IN_ntext); ASSUME(IN_ntext <= IN_next); ASSUME(IN_next < 0xffffffffffffffffULL);
  u64 nbytes = IN_next - IN_ntext; mkstr();
  u8 buf[CAP]; memset(buf, 0, CAP); struct S_struct_2esres r; memset(&r, 0, sizeof r);
#if TEXT
  k_sref_text_new(IN_next, IN_ntext, nbytes, str, buf, CAP, &r);
#else
  k_sref_bytes_new(IN_next, IN_ntext, nbytes, str, buf, CAP, &r);
#endif
  P(r.f0 == 0, "writing a string with pack_strings succeeds");
  P(r.f5 == 3 && buf[0] == 0xd9 && buf[1] == 0x01 && buf[2] == 0x00, "the constructor opened the stringref namespace (tag 256)");
  ASSUME(r.f5 == 3 && r.f4 >= r.f5 && r.f4 <= CAP);
  int reg = LEN >= minlen(IN_next);
  P(is_plain(buf + 3, r.f4 - 3), "a string seen for the first time is written as a plain definite-length string");
  if (reg) P(r.f1 == IN_next + 1 && r.f2 == IN_ntext + (TEXT ? 1 : 0) && r.f3 == nbytes + (TEXT ? 0 : 1), "long enough for the current count: registered under the next index, in its own table");
  else P(r.f1 == IN_next && r.f2 == IN_ntext && r.f3 == nbytes, "shorter than the stringref threshold for the current count: not registered (a decoder would not count it either)");
  WIT(LEN >= 3 && LEN < 11 ? (IN_next >= 24 && IN_ntext > 0 && IN_ntext < 24 && nbytes < 24 && nbytes > 0) : IN_next == 5);
}
HARNESS(h_repeat) {
  HAVOC(IN_next); HAVOC(IN_ntext); HAVOC(IN_next2); HAVOC(IN_ntext2);
  ASSUME(IN_ntext <= IN_next && IN_next < 0xfffffffffffffff0ULL);
  mkstr(); int reg1 = LEN >= minlen(IN_next);
  /* between the two occurrences any number of OTHER strings were registered: counters only grow, each table at least keeps what it had */
  u64 nb = IN_next - IN_ntext, nt1 = IN_ntext + (reg1 && TEXT ? 1 : 0), nb1 = nb + (reg1 && !TEXT ? 1 : 0);
  ASSUME(IN_next2 >= IN_next + (reg1 ? 1 : 0) && IN_next2 < 0xfffffffffffffff8ULL && IN_ntext2 >= nt1 && IN_ntext2 <= IN_next2 && IN_next2 - IN_ntext2 >= nb1);
  u8 buf[CAP]; memset(buf, 0, CAP); struct S_struct_2esres r; memset(&r, 0, sizeof r);
#if TEXT
  k_sref_text_repeat(IN_next, IN_ntext, nb, IN_next2, IN_ntext2, IN_next2 - IN_ntext2, str, buf, CAP, &r);
#else
  k_sref_bytes_repeat(IN_next, IN_ntext, nb, IN_next2, IN_ntext2, IN_next2 - IN_ntext2, str, buf, CAP, &r);
#endif
  P(r.f0 == 0, "writing a string with pack_strings succeeds");
  ASSUME(r.f5 <= r.f4 && r.f4 <= CAP && r.f5 == 3 + LEN + 1);
  u64 v = 0; int plain = is_plain(buf + r.f5, r.f4 - r.f5), ref = is_ref(buf + r.f5, r.f4 - r.f5, &v);
  P(plain || ref, "second occurrence: the plain string or a well-formed tag-25 reference");
  if (ref) P(reg1 && v == IN_next, "a reference names exactly the index the string was registered under (and only a registered string is referenced)");
  if (ref) P(r.f1 == IN_next2 && r.f2 == IN_ntext2 && r.f3 == IN_next2 - IN_ntext2, "a reference registers nothing");
  if (plain) { int reg2 = LEN >= minlen(IN_next2);   /* a decoder counts a plain string iff it is long enough for ITS current count: the encoder must keep the same count */
    P(r.f1 == IN_next2 + (reg2 ? 1 : 0), "a plain string moves the index counter exactly when a decoder's counter moves"); }
  WIT(LEN < 3 ? plain : LEN == 3 ? (ref && v > 0) : (ref && v >= 24));
}
