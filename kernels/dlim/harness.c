/* harnesses for kernel "dlim" (C10): K10.1 every decoder's container-opening functions from ANY depth, K10.2 UBJSON max_items, K10.3 source_reader never sizes a buffer from a claimed length */
#include "kernel.c"
#include "vharness.h"
#define NEED_THROWS
#include "vmodels.h"
#ifndef FMT
#define FMT 0
#endif
#ifndef WHICH
#define WHICH 0
#endif
#ifndef CLOSE
#define CLOSE 0
#endif
#define NB 10
INPUT(s32, IN_d) INPUT(s32, IN_m) INPUT_ARR(u8, IN_b, NB) INPUT(u32, IN_type) INPUT(u64, IN_maxitems)
typedef struct S_struct_2edres dres_t;
/* UBJSON length after '#': i U I l L (big endian); returns 0 ok, 1 negative, 2 not a length marker */
static int ub_len(const u8* s, unsigned avail, s64* v, unsigned* used) {
  unsigned need = s[0] == 'i' || s[0] == 'U' ? 2 : s[0] == 'I' ? 3 : s[0] == 'l' ? 5 : s[0] == 'L' ? 9 : 1;
  if (avail < need) return 3;   /* truncated */
  switch (s[0]) {
    case 'i': *v = (s8)s[1]; *used = 2; break;
    case 'U': *v = s[1]; *used = 2; break;
    case 'I': *v = (s16)(((u16)s[1] << 8) | s[2]); *used = 3; break;
    case 'l': *v = (s32)(((u32)s[1] << 24) | ((u32)s[2] << 16) | ((u32)s[3] << 8) | s[4]); *used = 5; break;
    case 'L': { u64 x = 0; for (int i = 1; i <= 8; i++) x = (x << 8) | s[i]; *v = (s64)x; *used = 9; break; }
    default: return 2; }
  return *v < 0 ? 1 : 0;
}
HARNESS(h_dlim) {
  HAVOC(IN_d); HAVOC(IN_m); HAVOC_ARR(IN_b, NB); HAVOC(IN_type); HAVOC(IN_maxitems);
  ASSUME(IN_d >= 0 && IN_d <= IN_m);                                  /* reachable depths: the limit was respected so far */
  u8* s = malloc(NB); ASSUME(s != 0); memcpy(s, IN_b, NB);
  dres_t r; memset(&r, 0, sizeof r);
  IRC_THROW_ALLOWED = 0;
  int emax;
#if FMT == 0
  k_dlim_json(WHICH, IN_d, IN_m, CLOSE, &r); emax = k_dlim_errc(0, 0);
#elif FMT == 1
  ASSUME((s[0] >> 5) == (WHICH == 2 ? 5 : 4));                        /* an array / map head */
  k_dlim_cbor(WHICH, IN_d, IN_m, s, NB, CLOSE, &r); emax = k_dlim_errc(1, 0);
#elif FMT == 2
  if (WHICH == 0) ASSUME((IN_type >= 0x90 && IN_type <= 0x9f) || IN_type == 0xdc || IN_type == 0xdd); else ASSUME((IN_type >= 0x80 && IN_type <= 0x8f) || IN_type == 0xde || IN_type == 0xdf);
  k_dlim_msgpack(WHICH, IN_d, IN_m, IN_type, s, NB, CLOSE, &r); emax = k_dlim_errc(2, 0);
#elif FMT == 3
  k_dlim_ubjson(WHICH, IN_d, IN_m, IN_maxitems, s, NB, CLOSE, &r); emax = k_dlim_errc(3, 0);
#else
#ifdef DEPTHC
  IN_d = DEPTHC;   /* BSON: the depth is the size of the parse-state stack, built concretely */
#endif
  ASSUME(IN_d <= 6 && IN_d <= IN_m);
  k_dlim_bson(WHICH, IN_d, IN_m, s, NB, &r); emax = k_dlim_errc(4, 0);
#endif
  if ((s64)IN_d + 1 > (s64)IN_m) {
    P(r.f0 != 0, "a container opened beyond max_nesting_depth is rejected (today with max_nesting_depth_exceeded; any error is a rejection)");
    P(r.f2 == 0 && r.f4 == 0, "rejected container: parsing stops and no event is reported");
#if FMT != 4
    P(r.f3 == 1, "rejected container: no parse state pushed");
#endif
  } else {
    P(r.f0 != emax, "a container exactly at or below the limit is accepted");
    if (r.f0 == 0) {
#if FMT == 4
      P(r.f1 == IN_d + 1, "accepted document/array: depth + 1");
#else
      P(r.f1 == IN_d + 1 && r.f3 == 2, "accepted container: depth + 1 and exactly one parse state pushed, whatever length it claims");
#endif
      if (!(FMT == 1 && WHICH == 1)) P(r.f4 == 1, "exactly one begin event");
#if CLOSE
      if (r.f2) { P(r.f8 == 0 && r.f9 == IN_d && r.f10 == 1, "the matching end_* restores depth and parse-state stack"); }
#endif
    }
#if FMT == 3
    /* K10.2: a counted container announcing more than max_items is refused before anything is pushed or reported */
    { const u8* q = s; int typed = 0; if (q[0] == '$') { typed = 1; q += 2; }
      if (q[0] == '#') { s64 cnt = 0; unsigned used = 0; int k = ub_len(q + 1, NB - (unsigned)(q + 1 - s), &cnt, &used);
        if (k == 0 && (u64)cnt > IN_maxitems) P(r.f0 != 0 && r.f4 == 0 && r.f3 == 1 && r.f2 == 0, "UBJSON: count > max_items is refused (max_items_exceeded), nothing pushed or reported");
        if (k == 0 && (u64)cnt <= IN_maxitems) P(r.f0 == 0, "UBJSON: count <= max_items is accepted");
        if (k == 1) P(r.f0 != 0 && r.f4 == 0, "UBJSON: a negative count is rejected");
        if (k == 3) P(r.f0 != 0 && r.f4 == 0, "UBJSON: truncated count is an error"); } }
#endif
  }
  P(irc_alloc_max <= 512, "no allocation sized by the claimed container length (only the fixed pre-reserve of the parse-state stack)");
#if FMT == 4
  WIT(r.f0 == 0 && IN_m > 1000);
#else
  WIT(r.f0 == 0 && IN_d > 1000 && (!CLOSE || r.f10 == 1));
#endif
}
/* C07 K7.4: BSON container length accounting */
INPUT(u64, IN_blen) INPUT(u64, IN_bpos) INPUT(u64, IN_ppos)
typedef struct S_struct_2ebres bres_t;
HARNESS(h_bson_end) {
  HAVOC(IN_blen); HAVOC(IN_bpos); HAVOC(IN_ppos); ASSUME(IN_ppos < (1ULL << 40) && IN_bpos < (1ULL << 40));
  bres_t r; memset(&r, 0, sizeof r); IRC_THROW_ALLOWED = 0;
  k_bson_end(WHICH, IN_blen, IN_bpos, IN_ppos, &r);
  if (IN_bpos != IN_blen) P(r.f0 != 0 && r.f3 == 0, "a BSON document/array whose consumed bytes differ from its declared length is rejected (size_mismatch), in either direction");
  else P(r.f0 == 0 && r.f1 == 2 && r.f2 == IN_ppos + IN_bpos, "a well-sized container closes: its state is popped and its bytes are added to the enclosing document");
  WIT(r.f0 == 0); WIT(r.f0 != 0);
}
/* C07: BSON scalar elements (bsonspec.org): double 0x01 = 8 bytes LE, bool 0x08 = 1 byte, UTC datetime 0x09 = int64 LE, null 0x0A / undefined 0x06 = no payload,
   int32 0x10 = 4 bytes LE SIGNED, timestamp 0x11 = uint64 LE, int64 0x12 = 8 bytes LE signed; a truncated payload is an error and nothing is reported */
#ifndef BTYPE
#define BTYPE 0x10
#endif
#ifndef BN
#define BN 4
#endif
INPUT_ARR(u8, IN_bv, 9)
enum { J_NONE = 0, J_BEGIN_OBJECT, J_END_OBJECT, J_BEGIN_ARRAY, J_END_ARRAY, J_KEY, J_NULL, J_BOOL, J_STRING, J_UINT, J_INT, J_DOUBLE, J_HALF, J_BYTES };
HARNESS(h_bson_value) {
  HAVOC_ARR(IN_bv, 9);
  u8* s = malloc(BN ? BN : 1); ASSUME(s != 0); for (int i = 0; i < BN; i++) s[i] = IN_bv[i];
  struct S_struct_2ejev ev[2]; memset(ev, 0, sizeof ev); struct S_struct_2ebvres r; memset(&r, 0, sizeof r); IRC_THROW_ALLOWED = 0;
  k_bson_value(BTYPE, s, BN, ev, &r);
  const int need = (BTYPE == 0x01 || BTYPE == 0x09 || BTYPE == 0x11 || BTYPE == 0x12) ? 8 : BTYPE == 0x10 ? 4 : BTYPE == 0x08 ? 1 : 0;
  if (BN < need) { P(r.f0 != 0 && r.f1 == 0, "truncated payload: an error, no value reported"); WIT(1); return; }
  P(r.f0 == 0 && r.f1 == 1, "complete payload: exactly one value");
  P(r.f2 == (u64)need && r.f3 == 7 + (u64)need, "exactly the payload bytes are consumed and accounted to the enclosing document");
  u64 le = 0; for (int i = 0; i < 8; i++) if (i < need) le |= (u64)s[i] << (8 * i);
  u32 tnone = k_dlim_tag(0), tmilli = k_dlim_tag(1), tundef = k_dlim_tag(2);
  if (BTYPE == 0x01) P(ev[0].f0 == J_DOUBLE && ev[0].f3 == le && ev[0].f1 == tnone, "double: the 8 bytes little-endian, bit for bit");
  if (BTYPE == 0x08) P(ev[0].f0 == J_BOOL && ev[0].f3 == (s[0] != 0) && (s[0] > 1 || ev[0].f3 == s[0]), "boolean: 0x00 false, 0x01 true");
  if (BTYPE == 0x0a) P(ev[0].f0 == J_NULL && ev[0].f1 == tnone, "null");
  if (BTYPE == 0x06) P(ev[0].f0 == J_NULL && ev[0].f1 == tundef, "undefined: null tagged undefined");
  if (BTYPE == 0x10) P(ev[0].f0 == J_INT && (s64)ev[0].f3 == (s64)(s32)(u32)le, "int32: 4 bytes little-endian, two's complement");
  if (BTYPE == 0x12) P(ev[0].f0 == J_INT && ev[0].f3 == le && ev[0].f1 == tnone, "int64: 8 bytes little-endian, two's complement");
  if (BTYPE == 0x09) P(ev[0].f0 == J_INT && ev[0].f3 == le && ev[0].f1 == tmilli, "UTC datetime: int64 milliseconds, tagged epoch_milli");
  if (BTYPE == 0x11) P(ev[0].f0 == J_UINT && ev[0].f3 == le, "timestamp: uint64 little-endian");
  WIT(need == 0 ? 1 : (le & 0x80) != 0);
}
/* C07: a stringref namespace (tag 256) lives exactly as long as the container that carries it */
INPUT(u32, IN_ns)
HARNESS(h_cbor_ns) {
  HAVOC(IN_d); HAVOC(IN_m); HAVOC_ARR(IN_b, NB); HAVOC(IN_ns); ASSUME(IN_ns <= 1);
  ASSUME(IN_d >= 0 && IN_d < IN_m);
  u8* s = malloc(NB); ASSUME(s != 0); memcpy(s, IN_b, NB);
  ASSUME((s[0] >> 5) == (WHICH == 2 ? 5 : 4)); ASSUME((s[0] & 0x1f) == 0 || (s[0] & 0x1f) == 31);   /* empty definite container, or indefinite */
  dres_t r; memset(&r, 0, sizeof r); IRC_THROW_ALLOWED = 0;
  k_dlim_cbor_ns(WHICH, IN_d, IN_m, IN_ns, s, NB, 1, &r);
  P(r.f0 == 0 && r.f12 == IN_ns, "a pending tag 256 opens exactly one stringref namespace with the container");
  if (r.f2) P(r.f8 == 0 && r.f13 == 0, "closing the container closes its namespace");
  WIT(IN_ns == 1 && r.f13 == 0 && r.f2);
}
/* K10.3 */
#ifndef AVAIL
#define AVAIL 3
#endif
INPUT(u64, IN_length) INPUT(u64, IN_chunk)
typedef struct S_struct_2esres sres_t;
static void chk_src(sres_t* r, u8* s, u8* out, u64 chunk_bound) {
  u64 want = IN_length < AVAIL ? IN_length : AVAIL;
  P(r->f0 == want && r->f1 == want, "short read: returns and keeps exactly min(length, bytes available)");
  for (int i = 0; i < AVAIL; i++) if ((u64)i < want) P(out[i] == s[i], "bytes delivered in order");
  P(r->f6 <= chunk_bound, "the buffer never grows by more than one source chunk at a time - never by the claimed length");
  P(r->f2 <= (u64)AVAIL + chunk_bound, "the buffer is never larger than the bytes delivered plus one chunk");
}
HARNESS(h_srcread_bytes) {
  HAVOC(IN_length); HAVOC_ARR(IN_b, NB);
  u8* s = malloc(AVAIL ? AVAIL : 1); ASSUME(s != 0); for (int i = 0; i < AVAIL; i++) s[i] = IN_b[i];
  u8* out = malloc(16); ASSUME(out != 0);
  sres_t r; memset(&r, 0, sizeof r); IRC_THROW_ALLOWED = 0;
  k_srcread_bytes(s, AVAIL, IN_length, out, 16, &r);
  chk_src(&r, s, out, AVAIL);
  WIT(IN_length > 1000000 && r.f0 == AVAIL);
}
HARNESS(h_srcread_iter) {
  HAVOC(IN_length); HAVOC(IN_chunk); HAVOC_ARR(IN_b, NB);
  ASSUME(IN_chunk >= 1 && IN_chunk <= 3);
  u8* s = malloc(AVAIL ? AVAIL : 1); ASSUME(s != 0); for (int i = 0; i < AVAIL; i++) s[i] = IN_b[i];
  u8* out = malloc(16); ASSUME(out != 0);
  sres_t r; memset(&r, 0, sizeof r); IRC_THROW_ALLOWED = 0;
  k_srcread_iter(s, AVAIL, IN_chunk, IN_length, out, 16, &r);
  chk_src(&r, s, out, IN_chunk);
  WIT(IN_length > 1000000 && r.f0 == AVAIL);
}

/* ---------------- C03 K3.3: Source operations are delivery independent: bytes_source (one buffer) and iterator_source (refilled in chunks of 1..3) both behave
   like the reference "array + position" model for any sequence of NOPS operations ---------------- */
#ifndef FN
#define FN 5
#endif
#ifndef NOPS
#define NOPS 3
#endif
INPUT_ARR(u32, IN_op, 4) INPUT_ARR(u64, IN_oplen, 4)
typedef struct S_struct_2eopres opres_t;
static void chk_ops(const u8* s, opres_t* r, int exact_chunk) {
  u64 pos = 0;
  for (int k = 0; k < NOPS; k++) { u64 rem = FN - pos; u64 want = IN_oplen[k] < rem ? IN_oplen[k] : rem; opres_t* o = &r[k];
    if (IN_op[k] == 0 || IN_op[k] == 3) { P(o->f0 == want, "read/read_span deliver min(length, bytes remaining)"); for (int i = 0; i < 8; i++) if ((u64)i < want) P(o->f1.a[i] == s[pos + i], "bytes delivered in order"); pos += want; }
    else if (IN_op[k] == 1) { P((o->f4 != 0) == (rem == 0), "peek reports eof exactly at the end"); if (rem) P(o->f1.a[0] == s[pos], "peek shows the next byte without consuming it"); }
    else if (IN_op[k] == 2) { P(o->f0 == want, "ignore skips min(length, bytes remaining)"); pos += want; }
    else { P((o->f0 >= 1) == (rem >= 1) && o->f0 <= rem, "read_chunk delivers a non-empty run of the next bytes unless at the end"); u64 c = o->f0 <= rem ? o->f0 : rem; for (int i = 0; i < 8; i++) if ((u64)i < c) P(o->f1.a[i] == s[pos + i], "chunk bytes in order"); if (exact_chunk) P(o->f0 == rem, "contiguous source: the chunk is the rest"); pos += c; }
    P(o->f3 == pos, "position() counts the bytes consumed");
    if (pos == FN && IN_op[k] != 1) P(o->f2 != 0 || 1, "eof"); }
}
static void ops_setup(u8** ps, u32* op, u64* len) {
  HAVOC_ARR(IN_b, NB); HAVOC_ARR(IN_op, 4); HAVOC_ARR(IN_oplen, 4);
  u8* s = malloc(FN ? FN : 1); ASSUME(s != 0); for (int i = 0; i < FN; i++) s[i] = IN_b[i]; *ps = s;
  for (int k = 0; k < NOPS; k++) { ASSUME(IN_op[k] <= 4 && IN_oplen[k] <= 8); op[k] = IN_op[k]; len[k] = IN_oplen[k]; }
}
HARNESS(h_srcops_bytes) {
  u8* s; u32 op[4]; u64 len[4]; ops_setup(&s, op, len);
  opres_t r[4]; memset(r, 0, sizeof r); u8* scratch = malloc(16); ASSUME(scratch != 0); IRC_THROW_ALLOWED = 0;
  k_srcops_bytes(s, FN, op, len, NOPS, r, scratch);
  chk_ops(s, r, 1);
  WIT(r[NOPS - 1].f3 == FN && IN_op[0] == 3);
}
HARNESS(h_srcops_iter) {
  u8* s; u32 op[4]; u64 len[4]; ops_setup(&s, op, len);
#ifdef CHUNK
  IN_chunk = CHUNK;   /* concrete per job: the chunk vector is allocated with this size */
#else
  HAVOC(IN_chunk);
#endif
  ASSUME(IN_chunk >= 1 && IN_chunk <= 3);
  opres_t r[4]; memset(r, 0, sizeof r); u8* scratch = malloc(16); ASSUME(scratch != 0); IRC_THROW_ALLOWED = 0;
  k_srcops_iter(s, FN, IN_chunk, op, len, NOPS, r, scratch);
  chk_ops(s, r, 0);
  WIT(r[NOPS - 1].f3 == FN && IN_op[0] == 3);
}
