// kernel "dlim": every container-opening function of every decoder, entered from a raw parser state with ANY depth / limit (one inductive step, DESIGN K10.1),
// plus the UBJSON max_items check and source_reader<Source>::read (no allocation from a merely claimed length, K10.3).
#include "vshim.h"
#include <jsoncons/json_options.hpp>
#include <jsoncons/json_parser.hpp>
#include <jsoncons/source.hpp>
#include <jsoncons_ext/cbor/cbor_parser.hpp>
#include <jsoncons_ext/msgpack/msgpack_parser.hpp>
#include <jsoncons_ext/ubjson/ubjson_parser.hpp>
#include <jsoncons_ext/bson/bson_parser.hpp>
#include "../jrecvis.h"
#include "../recvis.h"
using namespace jsoncons;
struct dres { int ec; int depth; int more; unsigned long stack; unsigned nev; unsigned kind0; unsigned long long len0; unsigned long consumed; int ec2; int depth2; unsigned long stack2; unsigned nev2; unsigned long ns1; unsigned long ns2; };
// ---- JSON: begin_object / begin_array (+ end_*)
KFN void k_dlim_json(unsigned which, int d, int m, int close, dres* r) {
    RAWOBJ(json_parser, pp); json_parser& p = *pp;
    p.max_nesting_depth_ = m; p.level_ = d;
    new (&p.err_handler_) std::function<bool(json_errc, const ser_context&)>(default_json_parsing());
    new (&p.state_stack_) std::vector<parse_state>(); p.state_stack_.reserve(4);
    p.line_ = 1; p.more_ = true; p.state_stack_.push_back(parse_state::root); p.state_ = parse_state::root;
    jev evs[2]; jrec v(evs, 2); std::error_code ec;
    if (which == 0) p.begin_object(v, ec); else p.begin_array(v, ec);
    r->ec = ec ? ec.value() : 0; r->depth = p.level_; r->more = p.more_; r->stack = p.state_stack_.size(); r->nev = v.n; r->kind0 = v.n ? evs[0].kind : 0;
    if (close && !ec) { std::error_code ec2; if (which == 0) p.end_object(v, ec2); else p.end_array(v, ec2); r->ec2 = ec2 ? ec2.value() : 0; r->depth2 = p.level_; r->stack2 = p.state_stack_.size(); r->nev2 = v.n; }
}
// ---- CBOR: begin_array / begin_classical_array_storage / begin_object; s[0] is the item's initial byte
using cborp_t = cbor::basic_cbor_parser<bytes_source>;
extern "C" void k_dlim_cbor_ns(unsigned which, int d, int m, int ns, const unsigned char* s, unsigned long n, int close, dres* r);
KFN void k_dlim_cbor(unsigned which, int d, int m, const unsigned char* s, unsigned long n, int close, dres* r) { k_dlim_cbor_ns(which, d, m, 0, s, n, close, r); }
// ns: a stringref-namespace tag (256) is pending on the container being opened
KFN void k_dlim_cbor_ns(unsigned which, int d, int m, int ns, const unsigned char* s, unsigned long n, int close, dres* r) {
    RAWOBJ(cborp_t, p);
    new (&p->source_) bytes_source(jsoncons::span<const uint8_t>(s, n));
    p->more_ = true; p->max_nesting_depth_ = m; p->nesting_depth_ = d;
    new (&p->state_stack_) std::vector<cbor::parse_state>(); p->state_stack_.reserve(4); p->state_stack_.emplace_back(cbor::parse_mode::root, 0);
    new (&p->stringref_map_stack_) decltype(p->stringref_map_stack_)(); p->stringref_map_stack_.reserve(2);
    if (ns) p->other_tags_[cborp_t::stringref_namespace_tag] = true;
    rec_ev evs[2]; recvis v(evs, 2); std::error_code ec;
    const uint8_t info = (uint8_t)(s[0] & 0x1f);
    if (which == 0) p->begin_array(v, info, ec); else if (which == 1) p->begin_classical_array_storage(info, ec); else p->begin_object(v, info, ec);
    r->ec = ec ? ec.value() : 0; r->depth = p->nesting_depth_; r->more = p->more_; r->stack = p->state_stack_.size(); r->nev = v.n; r->kind0 = v.n ? evs[0].kind : 0; r->len0 = v.n ? evs[0].bits : 0; r->consumed = p->source_.position(); r->ns1 = p->stringref_map_stack_.size();
    if (close && !ec) { std::error_code ec2; if (which == 0) p->end_array(v, ec2); else if (which == 1) p->end_classical_array_storage(ec2); else p->end_object(v, ec2); r->ec2 = ec2 ? ec2.value() : 0; r->depth2 = p->nesting_depth_; r->stack2 = p->state_stack_.size(); r->nev2 = v.n; r->ns2 = p->stringref_map_stack_.size(); }
}
// ---- MessagePack: begin_array / begin_object(type); s = bytes following the type byte
using msgp_t = msgpack::basic_msgpack_parser<bytes_source>;
KFN void k_dlim_msgpack(unsigned which, int d, int m, unsigned type, const unsigned char* s, unsigned long n, int close, dres* r) {
    RAWOBJ(msgp_t, p);
    new (&p->source_) bytes_source(jsoncons::span<const uint8_t>(s, n));
    p->more_ = true; p->max_nesting_depth_ = m; p->nesting_depth_ = d;
    new (&p->state_stack_) std::vector<msgpack::parse_state>(); p->state_stack_.reserve(4); p->state_stack_.emplace_back(msgpack::parse_mode::root, 0);
    rec_ev evs[2]; recvis v(evs, 2); std::error_code ec;
    if (which == 0) p->begin_array(v, (uint8_t)type, ec); else p->begin_object(v, (uint8_t)type, ec);
    r->ec = ec ? ec.value() : 0; r->depth = p->nesting_depth_; r->more = p->more_; r->stack = p->state_stack_.size(); r->nev = v.n; r->kind0 = v.n ? evs[0].kind : 0; r->len0 = v.n ? evs[0].bits : 0; r->consumed = p->source_.position();
    if (close && !ec && p->more_) { std::error_code ec2; if (which == 0) p->end_array(v, ec2); else p->end_object(v, ec2); r->ec2 = ec2 ? ec2.value() : 0; r->depth2 = p->nesting_depth_; r->stack2 = p->state_stack_.size(); r->nev2 = v.n; }
}
// ---- UBJSON: begin_array / begin_object; s = bytes following '[' or '{'
using ubjp_t = ubjson::basic_ubjson_parser<bytes_source>;
KFN void k_dlim_ubjson(unsigned which, int d, int m, unsigned long max_items, const unsigned char* s, unsigned long n, int close, dres* r) {
    RAWOBJ(ubjp_t, p);
    new (&p->source_) bytes_source(jsoncons::span<const uint8_t>(s, n));
    p->more_ = true; p->max_nesting_depth_ = m; p->nesting_depth_ = d; p->max_items_ = max_items;
    new (&p->state_stack_) std::vector<ubjson::parse_state>(); p->state_stack_.reserve(4); p->state_stack_.emplace_back(ubjson::parse_mode::root, 0);
    jev evs[2]; jrec v(evs, 2); std::error_code ec;
    if (which == 0) p->begin_array(v, ec); else p->begin_object(v, ec);
    r->ec = ec ? ec.value() : 0; r->depth = p->nesting_depth_; r->more = p->more_; r->stack = p->state_stack_.size(); r->nev = v.n; r->kind0 = v.n ? evs[0].kind : 0; r->consumed = p->source_.position();
    if (close && !ec && p->more_) { std::error_code ec2; if (which == 0) p->end_array(v, ec2); else p->end_object(v, ec2); r->ec2 = ec2 ? ec2.value() : 0; r->depth2 = p->nesting_depth_; r->stack2 = p->state_stack_.size(); r->nev2 = v.n; }
}
// ---- BSON: begin_document / begin_array; depth is state_stack_.size()-1 (root entry + one per open document); the stack is crafted with a symbolic size
using bsonp_t = bson::basic_bson_parser<bytes_source>;
KFN void k_dlim_bson(unsigned which, unsigned d, int m, const unsigned char* s, unsigned long n, dres* r) {
    RAWOBJ(bsonp_t, p);
    new (&p->source_) bytes_source(jsoncons::span<const uint8_t>(s, n));
    p->more_ = true; p->max_nesting_depth_ = m;
    new (&p->state_stack_) std::vector<bson::parse_state>(); p->state_stack_.reserve(8);
    if (d > 6) d = 6;
    for (unsigned i = 0; i < d + 1; ++i) p->state_stack_.emplace_back(i == 0 ? bson::parse_mode::root : bson::parse_mode::document, 0, 0);   // root + d open documents (the harness passes a concrete d)
    jev evs[2]; jrec v(evs, 2); std::error_code ec;
    if (which == 0) p->begin_document(v, ec); else p->begin_array(v, ec);
    r->ec = ec ? ec.value() : 0; r->depth = (int)p->state_stack_.size() - 1; r->more = p->more_; r->stack = p->state_stack_.size(); r->nev = v.n; r->kind0 = v.n ? evs[0].kind : 0; r->consumed = p->source_.position();
}
// BSON length accounting at the end of a document / array: the bytes consumed (pos) must equal the declared length, then the parent's pos grows by them
struct bres { int ec; unsigned long stack; unsigned long parent_pos; int more; };
KFN void k_bson_end(unsigned which, unsigned long length, unsigned long pos, unsigned long parent_pos, bres* r) {
    RAWOBJ(bsonp_t, p); p->more_ = true; p->max_nesting_depth_ = 1024;
    new (&p->state_stack_) std::vector<bson::parse_state>(); p->state_stack_.reserve(4);
    p->state_stack_.emplace_back(bson::parse_mode::root, 0, 0);
    p->state_stack_.emplace_back(bson::parse_mode::document, 1000, parent_pos);
    p->state_stack_.emplace_back(which ? bson::parse_mode::array : bson::parse_mode::document, length, pos);
    jev evs[2]; jrec v(evs, 2); std::error_code ec;
    if (which) p->end_array(v, ec); else p->end_document(v, ec);
    r->ec = ec ? ec.value() : 0; r->stack = p->state_stack_.size(); r->parent_pos = p->state_stack_.size() >= 2 ? p->state_stack_[1].pos : 0; r->more = p->more_;
}
// BSON scalar elements: read_value(visitor, type, ec) from raw parser state; the element type reaches read_value as a constant (one call site per type)
struct bvres { int ec; unsigned nev; unsigned long consumed; unsigned long pos; int more; };
template <unsigned TYPE> static inline void bson_value(const unsigned char* s, unsigned long n, jev* evs, bvres* r) {
    RAWOBJ(bsonp_t, p);
    new (&p->source_) bytes_source(jsoncons::span<const uint8_t>(s, n));
    p->more_ = true; p->max_nesting_depth_ = 1024;
    new (&p->state_stack_) std::vector<bson::parse_state>(); p->state_stack_.reserve(4);
    p->state_stack_.emplace_back(bson::parse_mode::root, 0, 0); p->state_stack_.emplace_back(bson::parse_mode::document, 1000, 7);
    jrec v(evs, 2); std::error_code ec;
    p->read_value(v, (uint8_t)TYPE, ec);
    r->ec = ec ? ec.value() : 0; r->nev = v.n; r->consumed = p->source_.position(); r->pos = p->state_stack_.back().pos; r->more = p->more_;
}
KFN void k_bson_value(unsigned type, const unsigned char* s, unsigned long n, jev* evs, bvres* r) {
    if (type == 0x01) bson_value<0x01>(s, n, evs, r); else if (type == 0x06) bson_value<0x06>(s, n, evs, r); else if (type == 0x08) bson_value<0x08>(s, n, evs, r);
    else if (type == 0x09) bson_value<0x09>(s, n, evs, r); else if (type == 0x0a) bson_value<0x0a>(s, n, evs, r); else if (type == 0x10) bson_value<0x10>(s, n, evs, r);
    else if (type == 0x11) bson_value<0x11>(s, n, evs, r); else bson_value<0x12>(s, n, evs, r);
}
KFN int k_dlim_tag(unsigned which) { return which == 0 ? (int)semantic_tag::none : which == 1 ? (int)semantic_tag::epoch_milli : (int)semantic_tag::undefined; }
KFN int k_dlim_errc(unsigned fmt, unsigned which) {
    switch (fmt) {
        case 0: return (int)json_errc::max_nesting_depth_exceeded;
        case 1: return (int)cbor::cbor_errc::max_nesting_depth_exceeded;
        case 2: return (int)msgpack::msgpack_errc::max_nesting_depth_exceeded;
        case 3: return which == 0 ? (int)ubjson::ubjson_errc::max_nesting_depth_exceeded : which == 1 ? (int)ubjson::ubjson_errc::max_items_exceeded : (int)ubjson::ubjson_errc::length_is_negative;
        case 4: return (int)bson::bson_errc::max_nesting_depth_exceeded;
    }
    return -1;
}
// ---- source_reader<Source>::read with a model Buffer that records every resize (K10.3): Source = the real bytes_source and the real stream_source over a stub streambuf
struct mbuf {
    typedef unsigned char value_type;
    unsigned char* p; unsigned long n; unsigned long cap; unsigned long max_resize; unsigned nresize; unsigned long max_growth;
    unsigned long size() const { return n; }
    void resize(unsigned long k) { if (k > max_resize) max_resize = k; if (k > n && k - n > max_growth) max_growth = k - n; nresize++; n = k; }
    unsigned char& operator[](unsigned long i) { return p[i < cap ? i : cap - 1]; }
};
struct sres { unsigned long ret; unsigned long size; unsigned long max_resize; unsigned nresize; unsigned long pos; int eof; unsigned long max_growth; };
KFN void k_srcread_bytes(const unsigned char* s, unsigned long avail, unsigned long length, unsigned char* out, unsigned long cap, sres* r) {
    bytes_source src(jsoncons::span<const uint8_t>(s, avail));
    mbuf b{out, 0, cap, 0, 0, 0};
    r->ret = source_reader<bytes_source>::read(src, b, length);
    r->size = b.n; r->max_resize = b.max_resize; r->nresize = b.nresize; r->pos = src.position(); r->eof = src.eof(); r->max_growth = b.max_growth;
}
using itsrc_t = iterator_source<const unsigned char*>;
KFN void k_srcread_iter(const unsigned char* s, unsigned long avail, unsigned long chunk, unsigned long length, unsigned char* out, unsigned long cap, sres* r) {
    itsrc_t src(s, s + avail, chunk);
    mbuf b{out, 0, cap, 0, 0, 0};
    r->ret = source_reader<itsrc_t>::read(src, b, length);
    r->size = b.n; r->max_resize = b.max_resize; r->nresize = b.nresize; r->pos = src.position(); r->eof = src.eof(); r->max_growth = b.max_growth;
}
// ---- C03 K3.3: the Source concept every binary parser reads through (read / peek / ignore / read_span / read_chunk / eof / position) on the two in-repo
// sources that can be lowered (bytes_source = one contiguous buffer, iterator_source = an iterator range refilled chunk by chunk)
struct sbuf2 { typedef unsigned char value_type; unsigned char* p; unsigned long n; unsigned long cap;
    unsigned long size() const { return n; } void clear() { n = 0; } void resize(unsigned long k) { n = k; } unsigned char& operator[](unsigned long i) { return p[i < cap ? i : cap - 1]; }
    unsigned char* data() { return p; } const unsigned char* data() const { return p; } };
struct opres { unsigned long count; unsigned char bytes[8]; unsigned eofflag; unsigned long pos; unsigned peek_eof; };
template <class S> static inline void srcops(S& src, const unsigned* op, const unsigned long* len, unsigned nops, opres* r, unsigned char* scratch) {
    for (unsigned k = 0; k < nops; ++k) {
        opres& o = r[k]; o.count = 0; o.peek_eof = 0; for (unsigned i = 0; i < 8; ++i) o.bytes[i] = 0;
        switch (op[k]) {
            case 0: { unsigned char tmp[8]; unsigned long l = len[k] > 8 ? 8 : len[k]; o.count = src.read(tmp, l); for (unsigned i = 0; i < 8; ++i) if (i < o.count) o.bytes[i] = tmp[i]; break; }
            case 1: { auto c = src.peek(); o.peek_eof = c.eof; o.count = c.eof ? 0 : 1; o.bytes[0] = c.eof ? 0 : c.value; break; }
            case 2: { unsigned long before = src.position(); src.ignore(len[k]); o.count = src.position() - before; break; }
            case 3: { sbuf2 b{scratch, 0, 16}; auto sp = src.read_span(len[k] > 8 ? 8 : len[k], b); o.count = sp.size(); for (unsigned i = 0; i < 8; ++i) if (i < sp.size()) o.bytes[i] = sp.data()[i]; break; }
            default: { auto sp = src.read_chunk(); o.count = sp.size(); for (unsigned i = 0; i < 8; ++i) if (i < sp.size()) o.bytes[i] = sp.data()[i]; break; }
        }
        o.eofflag = src.eof(); o.pos = src.position();
    }
}
KFN void k_srcops_bytes(const unsigned char* s, unsigned long n, const unsigned* op, const unsigned long* len, unsigned nops, opres* r, unsigned char* scratch) {
    bytes_source src(jsoncons::span<const uint8_t>(s, n)); srcops(src, op, len, nops, r, scratch);
}
KFN void k_srcops_iter(const unsigned char* s, unsigned long n, unsigned long chunk, const unsigned* op, const unsigned long* len, unsigned nops, opres* r, unsigned char* scratch) {
    itsrc_t src(s, s + n, chunk); srcops(src, op, len, nops, r, scratch);
}
