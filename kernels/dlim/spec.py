"""kernel dlim: every decoder's container-opening functions entered from a raw parser state with ANY depth/limit (one inductive step),
UBJSON max_items, and source_reader<Source>::read with a recording Buffer.  Serves C10 (K10.1-K10.3), C05."""
ASSUMPTIONS = ['dlim/h_dlim: 0 <= depth <= limit (states reachable without a prior error), any int limit; 10 following input bytes fully symbolic; format / function / close concrete per job; BSON: depth <= 6 (the stack size is crafted)',
               'dlim/h_dlim: parser objects are raw zeroed storage with only the members the functions touch initialised (source_, more_, depth, limit, pre-reserved state stack holding the root entry)',
               'dlim/h_srcread_*: bytes actually available concrete per job (0..4), claimed length ANY uint64, iterator_source chunk size 1..3']
STUB_NOTES = ['recording visitors (kernels/jrecvis.h, kernels/recvis.h)', 'model Buffer (records every resize) for source_reader::read', 'operator new -> fresh object with allocation meter (irc_alloc_max)']
FM = {0: ('json', {0: 'begin_object', 1: 'begin_array'}), 1: ('cbor', {0: 'begin_array', 1: 'begin_classical_array_storage', 2: 'begin_object'}), 2: ('msgpack', {0: 'begin_array', 1: 'begin_object'}),
      3: ('ubjson', {0: 'begin_array', 1: 'begin_object'}), 4: ('bson', {0: 'begin_document', 1: 'begin_array'})}
def jobs(tier):
    J = []
    for f, (name, ws) in FM.items():
        for w, wn in ws.items():
            if f == 4:
                for d in (0, 1, 3):
                    J.append(dict(id='dlim_bson_%s_d%d' % (wn, d), harness='h_dlim', props=['C10'], unwind=12, defs=dict(FMT=4, WHICH=w, CLOSE=0, DEPTHC=d), timeout=300, mem_gb=4,
                                  desc='bson parser %s: max_nesting_depth_exceeded iff open documents + 1 > limit' % wn, bound='%d open documents (concrete), any limit, 10 symbolic input bytes' % d))
                continue
            for c in (0, 1):
                J.append(dict(id='dlim_%s_%s_%s' % (name, wn, 'close' if c else 'open'), harness='h_dlim', props=['C10', 'C07'] if f == 3 else ['C10'], unwind=12, defs=dict(FMT=f, WHICH=w, CLOSE=c), timeout=300, mem_gb=4,
                              desc='%s parser %s: max_nesting_depth_exceeded iff depth+1 > limit, else depth+1 and one state pushed regardless of the claimed length%s%s' % (name, wn, '; end restores' if c else '', '; UBJSON max_items' if f == 3 else ''),
                              bound='any depth 0..limit, any limit, 10 symbolic input bytes'))
    for bt, btn, need in ((0x01, 'double', 8), (0x08, 'bool', 1), (0x09, 'datetime', 8), (0x0a, 'null', 0), (0x06, 'undefined', 0), (0x10, 'int32', 4), (0x11, 'timestamp', 8), (0x12, 'int64', 8)):
        for n in sorted(set([need, max(need - 1, 0)] + ([0, need + 1] if tier == 'thorough' else []))):
            J.append(dict(id='bson_value_%s_n%d' % (btn, n), harness='h_bson_value', props=['C07'], unwind=11, defs=dict(FMT=4, BTYPE=bt, BN=n), timeout=300, mem_gb=4,
                          desc='bson parser read_value(%s): payload width, little-endian, signedness and tag per bsonspec.org; truncated payload is an error' % btn, bound='every payload, %d input bytes' % n))
    for w, wn in ((0, 'end_document'), (1, 'end_array')):
        J.append(dict(id='bson_%s' % wn, harness='h_bson_end', props=['C07'], unwind=12, defs=dict(FMT=4, WHICH=w), timeout=300, mem_gb=4, desc='bson parser %s: consumed bytes must equal the declared length (size_mismatch otherwise), then the parent accounts for them' % wn, bound='any declared length, any consumed count < 2^40'))
    for w, wn in ((0, 'begin_array'), (1, 'begin_classical_array_storage'), (2, 'begin_object')):
        J.append(dict(id='cbor_ns_%s' % wn, harness='h_cbor_ns', props=['C07'], unwind=12, defs=dict(FMT=1, WHICH=w, CLOSE=1), timeout=300, mem_gb=4, desc='cbor parser %s + end: a pending stringref-namespace tag (256) opens one namespace with the container and closing the container closes it' % wn, bound='tag pending or not, empty definite or indefinite container, any depth below the limit'))
    for a in ([0, 1, 2, 3, 4] if tier == 'thorough' else [0, 2, 4]):
        J.append(dict(id='srcread_bytes_a%d' % a, harness='h_srcread_bytes', props=['C10'], unwind=12, defs=dict(AVAIL=a), timeout=300, desc='source_reader<bytes_source>::read: short read, buffer never sized by the claimed length', bound='%d bytes available, any claimed length' % a))
        J.append(dict(id='srcread_iter_a%d' % a, harness='h_srcread_iter', props=['C10'], unwind=12, defs=dict(AVAIL=a), timeout=300, desc='source_reader<iterator_source>::read (remaining()==0 path): buffer grows by at most one chunk at a time', bound='%d bytes available, chunk 1..3, any claimed length' % a))
    for fn in ((3, 5) if tier != 'thorough' else (0, 1, 2, 3, 4, 5, 6)):
        for nops in ((2,) if tier != 'thorough' else (2, 3)):
            J.append(dict(id='srcops_bytes_f%d_o%d' % (fn, nops), harness='h_srcops_bytes', props=['C03'], unwind=12, defs=dict(FN=fn, NOPS=nops), timeout=600, mem_gb=6, desc='bytes_source: any sequence of read/peek/ignore/read_span/read_chunk behaves like array+position', bound='file of %d symbolic bytes, %d operations with symbolic kind and length <= 8' % (fn, nops)))
            for ch in (1, 2, 3):
              J.append(dict(id='srcops_iter_f%d_o%d_c%d' % (fn, nops, ch), harness='h_srcops_iter', props=['C03'], unwind=12, defs=dict(FN=fn, NOPS=nops, CHUNK=ch), timeout=600, mem_gb=6, desc='iterator_source (chunk 1..3): same operations, same results as the contiguous model - delivery in chunks is invisible', bound='file of %d symbolic bytes, chunk size %d, %d operations with symbolic kind and length <= 8' % (fn, ch, nops)))
    return J
