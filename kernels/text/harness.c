/* harnesses for kernel "text" (C01 K1.1, C02 K2.2 UTF-8 automata, C05 safety) */
#include "kernel.c"
#include "vharness.h"
#ifndef N
#define N 3
#endif
INPUT_ARR(u8, IN_s, N) INPUT(u32, IN_all) INPUT(u32, IN_sol) INPUT(u32, IN_cp) INPUT(u32, IN_strict)

/* RFC 3629 section 4 table, written from the RFC: returns sequence length at s[i] (1..4) and the scalar, or 0 if ill-formed/truncated */
static int ref_u8(const u8* s, u64 i, u64 n, u32* cp) {
  u8 a = s[i];
  if (a < 0x80) { *cp = a; return 1; }
  if (a >= 0xC2 && a <= 0xDF) { if (i + 1 >= n) return 0; u8 b = s[i+1]; if (b < 0x80 || b > 0xBF) return 0; *cp = ((u32)(a & 0x1F) << 6) | (b & 0x3F); return 2; }
  if (a >= 0xE0 && a <= 0xEF) { if (i + 2 >= n) return 0; u8 b = s[i+1], c = s[i+2];
    u8 lo = 0x80, hi = 0xBF; if (a == 0xE0) lo = 0xA0; if (a == 0xED) hi = 0x9F;
    if (b < lo || b > hi || c < 0x80 || c > 0xBF) return 0; *cp = ((u32)(a & 0x0F) << 12) | ((u32)(b & 0x3F) << 6) | (c & 0x3F); return 3; }
  if (a >= 0xF0 && a <= 0xF4) { if (i + 3 >= n) return 0; u8 b = s[i+1], c = s[i+2], d = s[i+3];
    u8 lo = 0x80, hi = 0xBF; if (a == 0xF0) lo = 0x90; if (a == 0xF4) hi = 0x8F;
    if (b < lo || b > hi || c < 0x80 || c > 0xBF || d < 0x80 || d > 0xBF) return 0; *cp = ((u32)(a & 0x07) << 18) | ((u32)(b & 0x3F) << 12) | ((u32)(c & 0x3F) << 6) | (d & 0x3F); return 4; }
  return 0;
}
static u8* mk(void) { HAVOC_ARR(IN_s, N); u8* s = malloc(N ? N : 1); ASSUME(s != 0); if (N) memcpy(s, IN_s, N); return s; }

HARNESS(h_validate) {
  u8* s = mk(); u64 consumed = 0;
  int ec = k_validate(s, N, &consumed);
  u64 i = 0; int ok = 1; while (i < N) { u32 cp; int l = ref_u8(s, i, N, &cp); if (!l) { ok = 0; break; } i += l; }
  P((ec == 0) == ok, "validate accepts exactly RFC 3629 well-formed UTF-8");
  P(consumed == i, "error position = start of the first ill-formed sequence (or end)");
  WIT(ec == 0 && (N < 2 || s[0] >= 0x80));
}
HARNESS(h_count_cp) {
  u8* s = mk();
  u64 r = k_count_cp(s, N);
  u64 i = 0, cnt = 0; int ok = 1; while (i < N) { u32 cp; int l = ref_u8(s, i, N, &cp); if (!l) { ok = 0; break; } i += l; cnt++; }
  P(r == (ok ? cnt : 0), "count_codepoints = number of scalars, 0 for ill-formed");
  WIT(N < 2 ? r == 1 : (r >= 1 && s[0] >= 0x80));
}
HARNESS(h_to_cp) {
  u8* s = mk(); u32 cp = 0; u64 consumed = 0; HAVOC(IN_strict); ASSUME(IN_strict <= 1);
  ASSUME(N > 0);
  int ec = k_to_cp(s, N, &cp, &consumed, IN_strict);
  u32 rcp = 0; int l = ref_u8(s, 0, N, &rcp);
  if (l) { P(ec == 0 && cp == rcp && consumed == (u64)l, "to_codepoint decodes the RFC 3629 scalar and consumes its bytes"); }
  else P(ec != 0, "ill-formed / truncated sequence rejected");
  WIT(ec == 0 && (N < 4 || cp > 0xFFFF));
}
HARNESS(h_is_legal) {
  u8* s = mk(); ASSUME(N >= 1);
  /* caller contract (validate/to_codepoint): length = trailing_bytes_for_utf8[first]+1 <= available; we check every first byte whose class length is N */
  u8 a = s[0]; int cls = a < 0xC0 ? 1 : a < 0xE0 ? 2 : a < 0xF0 ? 3 : a < 0xF8 ? 4 : a < 0xFC ? 5 : 6;
  ASSUME(cls == N);
  int ec = k_is_legal(s, N);
  u32 cp; int l = ref_u8(s, 0, N, &cp);
  P((ec == 0) == (l == N), "is_legal_utf8 == RFC 3629 table for a sequence of its class length");
  WIT(ec == 0);
}
HARNESS(h_cp_to_utf8) {
  HAVOC(IN_cp); u8 buf[8]; u64 n = 0;
  int ec = k_cp_to_utf8(IN_cp, buf, 8, &n);
  int scalar = IN_cp <= 0x10FFFF && !(IN_cp >= 0xD800 && IN_cp <= 0xDFFF);
  if (scalar) { P(ec == 0, "scalar accepted"); ASSUME(n <= 8); u32 back = 0; int l = ref_u8(buf, 0, n, &back); P(l != 0 && (u64)l == n && back == IN_cp, "UTF-8 encoding decodes (RFC 3629) to the same scalar, shortest form"); }
  else P(ec != 0, "surrogate / out-of-range code point rejected");
  WIT(ec == 0 && n == 4);
}

HARNESS(h_sur_class) {
  HAVOC(IN_cp);
  u32 r = k_sur_class(IN_cp);
  u32 want = ((IN_cp >= 0xD800 && IN_cp <= 0xDBFF) ? 1 : 0) | ((IN_cp >= 0xDC00 && IN_cp <= 0xDFFF) ? 2 : 0) | ((IN_cp >= 0xD800 && IN_cp <= 0xDFFF) ? 4 : 0);
  P(r == want, "is_high_surrogate / is_low_surrogate / is_surrogate == the UTF-16 ranges D800-DBFF / DC00-DFFF / D800-DFFF");
  WIT(r == 5);
}
/* reference RFC 8259 section 7 un-escaper for the inside of a JSON string, one unit (raw char | 2-char escape | \uXXXX | surrogate pair) per call.
   Loop-free so that the only loops are over input scalars (bound N). */
#define OUTCAP (N * 12 + 4)
static int hexv(u8 h) { if (h >= '0' && h <= '9') return h - '0'; if (h >= 'a' && h <= 'f') return h - 'a' + 10; if (h >= 'A' && h <= 'F') return h - 'A' + 10; return -1; }
static long hex4(const u8* o) { int a = hexv(o[0]), b = hexv(o[1]), c = hexv(o[2]), d = hexv(o[3]); if (a < 0 || b < 0 || c < 0 || d < 0) return -1; return (a << 12) | (b << 8) | (c << 4) | d; }
/* returns number of output bytes consumed (>0) or -1 (illegal) / -2 (raw quote or control); appends the denoted bytes to dst[*k..] */
static int ref_unit(const u8* o, u64 i, u64 n, u8* dst, u64* k, int* ascii_only) {
  u8 c = o[i];
  if (c >= 0x80) *ascii_only = 0;
  if (c == '"' || c < 0x20) return -2;
  if (c != '\\') { dst[(*k)++] = c; return 1; }
  if (i + 1 >= n) return -1;
  u8 e = o[i+1];
  if (e == '"' || e == '\\' || e == '/') { dst[(*k)++] = e; return 2; }
  if (e == 'b') { dst[(*k)++] = 8; return 2; } if (e == 'f') { dst[(*k)++] = 12; return 2; }
  if (e == 'n') { dst[(*k)++] = 10; return 2; } if (e == 'r') { dst[(*k)++] = 13; return 2; } if (e == 't') { dst[(*k)++] = 9; return 2; }
  if (e != 'u' || i + 5 >= n) return -1;
  long h = hex4(o + i + 2); if (h < 0) return -1;
  u32 cp = (u32)h; int used = 6;
  if (cp >= 0xDC00 && cp <= 0xDFFF) return -1;
  if (cp >= 0xD800 && cp <= 0xDBFF) {
    if (i + 11 >= n || o[i+6] != '\\' || o[i+7] != 'u') return -1;
    long l = hex4(o + i + 8); if (l < 0xDC00 || l > 0xDFFF) return -1;
    used = 12; cp = 0x10000 + ((cp - 0xD800) << 10) + ((u32)l - 0xDC00);
  }
  if (cp < 0x80) dst[(*k)++] = cp;
  else if (cp < 0x800) { dst[(*k)++] = 0xC0 | (cp >> 6); dst[(*k)++] = 0x80 | (cp & 0x3F); }
  else if (cp < 0x10000) { dst[(*k)++] = 0xE0 | (cp >> 12); dst[(*k)++] = 0x80 | ((cp >> 6) & 0x3F); dst[(*k)++] = 0x80 | (cp & 0x3F); }
  else { dst[(*k)++] = 0xF0 | (cp >> 18); dst[(*k)++] = 0x80 | ((cp >> 12) & 0x3F); dst[(*k)++] = 0x80 | ((cp >> 6) & 0x3F); dst[(*k)++] = 0x80 | (cp & 0x3F); }
  return used;
}
HARNESS(h_escape) {
  u8* s = mk(); HAVOC(IN_all); HAVOC(IN_sol); ASSUME(IN_all <= 1 && IN_sol <= 1);
  u64 i = 0; int valid = 1; while (i < N) { u32 cp; int l = ref_u8(s, i, N, &cp); if (!l) { valid = 0; break; } i += l; }
  ASSUME(valid || IN_all);            /* the data model contains valid UTF-8 only; raw pass-through of ill-formed bytes is not claimed */
  IRC_THROW_ALLOWED = !valid;         /* ill-formed input under escape_all_non_ascii: the only legal outcome is ser_error */
  u8 out[OUTCAP]; u64 written = 0;
  u64 cnt = k_escape(s, N, IN_all, IN_sol, out, OUTCAP, &written);
  P(valid, "ill-formed UTF-8 must be refused with an exception, not encoded");
  P(cnt == written, "returned count == characters written");
  P(written <= OUTCAP, "output fits 12 bytes per input byte");
  ASSUME(written <= OUTCAP);
  u8 back[N * 4 + 8]; int ascii_only = 1; u64 k = 0, p = 0; int bad = 0, rawbad = 0, raw_sol = 0;
  for (int u = 0; u < N; u++) {           /* every unit denotes >= 1 byte, so more than N units already means the round trip fails */
    if (p >= written) break;
    if (out[p] == '/') raw_sol = 1;
    int used = ref_unit(out, p, written, back, &k, &ascii_only);
    if (used == -2) { rawbad = 1; break; } if (used < 0) { bad = 1; break; }
    p += used;
  }
  P(!rawbad, "no raw quote or control character in the output");
  P(!bad, "output is a legal RFC 8259 string body (every backslash starts a legal escape, surrogates paired)");
  if (!bad && !rawbad) {
    P(p == written, "output denotes no more than the input (no extra units)");
    P(k == N, "un-escaped length equals input length");
    if (k == N) { int same = 1; for (u64 j = 0; j < N; j++) if (back[j] != s[j]) same = 0; P(same, "unescape(escape(s)) == s"); }
  }
  if (IN_all) P(ascii_only, "escape_all_non_ascii output is pure ASCII");
  if (IN_sol) P(!raw_sol, "escape_solidus leaves no bare solidus");
  WIT(valid && written >= 6 && IN_all);
}
