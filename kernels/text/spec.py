"""kernel text: unicode_traits validate/is_legal_utf8/to_codepoint/count_codepoints/convert(utf32->utf8) and detail::escape_string.
Serves C01 (K1.1 escape round-trip), C02 (K2.2 UTF-8 automata), C05."""
ASSUMPTIONS = [
    'text/h_escape: input is well-formed UTF-8, or escape_all_non_ascii is on (then ill-formed input must throw); raw pass-through of ill-formed bytes is outside the data model',
    'text/h_is_legal: called with length = class length of the first byte (what validate/to_codepoint pass)',
    'text/*: buffer length is concrete per job (symbolic lengths blow up, DESIGN 2.5), bytes fully symbolic',
]
STUB_NOTES = ['fsink: fixed-array Sink/Container (push_back) instead of std::string / stream_sink']

def jobs(tier):
    J = []
    t = tier == 'thorough'
    def add(id, harness, props, unwind, defs, timeout, desc, bound, **kw):
        J.append(dict(id=id, harness=harness, props=props, unwind=unwind, defs=defs, timeout=timeout, desc=desc, bound=bound, **kw))
    for n in ([1, 2, 3, 4, 5, 6, 8, 9] if t else [1, 2, 3, 4, 6]):
        add('validate_n%d' % n, 'h_validate', ['C02', 'C07'], n + 3, dict(N=n), 1200, 'unicode_traits::validate<char> == RFC 3629 table, error position', 'all byte strings of length %d' % n)
    for n in ([1, 2, 3, 4, 5] if t else [1, 2, 3, 4]):
        add('count_cp_n%d' % n, 'h_count_cp', ['C02'], n + 3, dict(N=n), 600, 'count_codepoints == scalar count or 0', 'all byte strings of length %d' % n)
    for n in [1, 2, 3, 4, 5]:
        add('to_cp_n%d' % n, 'h_to_cp', ['C02', 'C01'], n + 3, dict(N=n), 600, 'to_codepoint == RFC 3629 decoding (strict and lenient)', 'all byte strings of length %d' % n)
    for n in [1, 2, 3, 4]:
        add('is_legal_n%d' % n, 'h_is_legal', ['C02'], 6, dict(N=n), 300, 'is_legal_utf8 == RFC 3629 table', 'all %d-byte sequences of class length %d' % (n, n))
    add('sur_class', 'h_sur_class', ['C02', 'C01'], 3, dict(N=1), 300, 'is_high_surrogate/is_low_surrogate/is_surrogate == UTF-16 surrogate ranges (used by the parser for \\u escapes and by the encoders)', 'all 2^32 code point values')
    add('cp_to_utf8', 'h_cp_to_utf8', ['C02'], 6, dict(N=1), 300, 'convert(utf32->utf8): shortest-form encoding of every scalar, surrogates and > U+10FFFF rejected', 'all 2^32 code point values')
    for n in ([1, 2, 3, 4, 5] if t else [1, 2, 3, 4]):
        add('escape_n%d' % n, 'h_escape', ['C01', 'C08'], n + 2, dict(N=n), 900, 'escape_string: unescape(escape(s))==s, legal escapes only, ASCII-only under escape_all_non_ascii, ill-formed -> ser_error', 'all byte strings of length %d x both flags' % n)
    SAFETY_IDS = ['validate_n4', 'count_cp_n3', 'to_cp_n4', 'cp_to_utf8', 'escape_n3']
    for j in list(J):
        if j['id'] in SAFETY_IDS:
            J.append(dict(j, id=j['id'] + '_safety', props=['C05'], safety=True, desc=j['desc'] + ' [safety mode]'))
    return J
