// kernel "text": UTF-8 validation/decoding/encoding (unicode_traits.hpp) and JSON string escaping (json_encoders.hpp)
#include "vshim.h"
#include <jsoncons/utility/unicode_traits.hpp>
#include <jsoncons/json_encoders.hpp>
using namespace jsoncons;
KFN int k_validate(const char* s, unsigned long n, long* consumed) { auto r = unicode_traits::validate(s, n); *consumed = r.ptr - s; return (int)r.ec; }
KFN int k_is_legal(const unsigned char* s, unsigned long n) { return (int)unicode_traits::is_legal_utf8(s, n); }
KFN int k_to_cp(const char* s, unsigned long n, unsigned* cp, long* consumed, int strict) { uint32_t c = 0; auto r = unicode_traits::to_codepoint(s, s + n, c, strict ? unicode_traits::strict_flag::strict : unicode_traits::strict_flag::lenient); *cp = c; *consumed = r.ptr - s; return (int)r.ec; }
KFN unsigned long k_count_cp(const char* s, unsigned long n) { return unicode_traits::count_codepoints(s, n); }
KFN int k_cp_to_utf8(unsigned cp, char* buf, unsigned long cap, unsigned long* n) { fsink k{buf, 0, cap}; uint32_t c = cp; auto r = unicode_traits::convert(&c, 1, k); *n = k.n; return (int)r.ec; }
KFN unsigned long k_escape(const char* s, unsigned long n, int all_non_ascii, int solidus, char* buf, unsigned long cap, unsigned long* written) { fsink k{buf, 0, cap}; unsigned long r = jsoncons::detail::escape_string(s, n, all_non_ascii != 0, solidus != 0, k); *written = k.n; return r; }
KFN int k_sur_class(unsigned cp) { return (unicode_traits::is_high_surrogate(cp) ? 1 : 0) | (unicode_traits::is_low_surrogate(cp) ? 2 : 0) | (unicode_traits::is_surrogate(cp) ? 4 : 0); }
