#include "vselftest.h"
extern "C" {
#define BOTH(ret, name, ...) ret name(__VA_ARGS__); ret c_##name(__VA_ARGS__);
BOTH(int, k_validate, const char*, unsigned long, long*)
BOTH(int, k_is_legal, const unsigned char*, unsigned long)
BOTH(int, k_to_cp, const char*, unsigned long, unsigned*, long*, int)
BOTH(unsigned long, k_count_cp, const char*, unsigned long)
BOTH(int, k_cp_to_utf8, unsigned, char*, unsigned long, unsigned long*)
BOTH(int, k_sur_class, unsigned)
BOTH(unsigned long, k_escape, const char*, unsigned long, int, int, char*, unsigned long, unsigned long*)
}
static void one(const char* u, unsigned long ul) {
  long ca = 0, cb = 0; int ra = k_validate(u, ul, &ca), rb = c_k_validate(u, ul, &cb); ST_CHECK(ra == rb && ca == cb);
  ST_CHECK(k_count_cp(u, ul) == c_k_count_cp(u, ul));
  if (ul) { unsigned pa = 0, pb = 0; int st = st_rand() & 1; ra = k_to_cp(u, ul, &pa, &ca, st); rb = c_k_to_cp(u, ul, &pb, &cb, st); ST_CHECK(ra == rb && ca == cb && pa == pb); }
  if (ul >= 1 && ul <= 4) ST_CHECK(k_is_legal((const unsigned char*)u, ul) == c_k_is_legal((const unsigned char*)u, ul));
  char p1[256] = {0}, p2[256] = {0}; int f1 = st_rand() & 1, f2 = st_rand() & 1; unsigned long w1 = 0, w2 = 0, l1 = 0, l2 = 0;
  int t1 = ST_TRY(l1 = k_escape(u, ul, f1, f2, p1, 256, &w1)); int t2 = ST_TRY(l2 = c_k_escape(u, ul, f1, f2, p2, 256, &w2));
  ST_CHECK(t1 == t2 && (t1 || (l1 == l2 && w1 == w2 && !memcmp(p1, p2, 256))));
}
ST_MAIN_BEGIN
  // strings from the repository's unicode/encoder tests plus seeded random vectors
  const char* fixed[] = {"", "abc", "\xC3\xA9", "\xE2\x82\xAC", "\xF0\x9D\x84\x9E", "\xED\xA0\x80", "\xC0\x80", "\xF4\x90\x80\x80", "\xE0\x80\x80", "a\"b\\c/d\b\f\n\r\t", "\x7f", "\x01\x1f", "\xEF\xBF\xBD", "\xF0\x9F\x98\x80x", "\xE4\xB8\xAD\xE6\x96\x87"};
  for (const char* f : fixed) one(f, strlen(f));
  one("a\0b", 3);
  for (int it = 0; it < 200000; it++) {
    char u[16]; int ul = st_rand() % 16;
    for (int i = 0; i < ul; i++) { int r = st_rand() % 4; u[i] = r == 0 ? (char)(st_rand() % 128) : r == 1 ? (char)(0x80 + st_rand() % 0x40) : r == 2 ? (char)(0xC0 + st_rand() % 0x40) : (char)(st_rand() % 256); }
    one(u, ul);
    unsigned cp = st_rand() % 3 ? st_rand() % 0x110000 : (unsigned)st_rand(); char b1[8] = {0}, b2[8] = {0}; unsigned long n1 = 0, n2 = 0;
    ST_CHECK(k_sur_class(cp) == c_k_sur_class(cp)); ST_CHECK(k_sur_class(0xD7FF + it % 0x802) == c_k_sur_class(0xD7FF + it % 0x802));
    int ra = k_cp_to_utf8(cp, b1, 8, &n1), rb = c_k_cp_to_utf8(cp, b2, 8, &n2); ST_CHECK(ra == rb && n1 == n2 && !memcmp(b1, b2, 8));
  }
ST_MAIN_END
