// kernel "typed" (C17): the REAL reflect::decode_traits<T>::decode (streaming route) driven by a model basic_staj_cursor<char> that serves a symbolic event
// sequence, and the REAL reflect::json_traits<Json,T>::try_as / is (basic_json route) instantiated with a model Json whose element accesses are recorded.
#include "vshim.h"
#include <jsoncons/json.hpp>
#include <jsoncons/staj_cursor.hpp>
#include <jsoncons/reflect/decode_traits.hpp>
#include <jsoncons/reflect/json_traits.hpp>
#include <array>
#include <tuple>
using namespace jsoncons;
// ---- streaming route
struct tev { unsigned kind; unsigned long long val; };   // kind: 0 begin_array 1 end_array 2 uint64 3 int64 4 bool 5 null 6 begin_object 7 end_object 8 double(1.5)
struct mcursor final : basic_staj_cursor<char>, ser_context {
    basic_staj_event<char> ev[6]; unsigned n; unsigned i; unsigned overrun;
    mcursor(const tev* t, unsigned nn) : ev{basic_staj_event<char>(staj_events::null_value), basic_staj_event<char>(staj_events::null_value), basic_staj_event<char>(staj_events::null_value), basic_staj_event<char>(staj_events::null_value), basic_staj_event<char>(staj_events::null_value), basic_staj_event<char>(staj_events::null_value)}, n(nn), i(0), overrun(0) {
        for (unsigned k = 0; k < nn && k < 6; ++k) {
            switch (t[k].kind) {
                case 0: ev[k] = basic_staj_event<char>(staj_events::begin_array); break;
                case 1: ev[k] = basic_staj_event<char>(staj_events::end_array); break;
                case 2: ev[k] = basic_staj_event<char>((uint64_t)t[k].val, semantic_tag::none); break;
                case 3: ev[k] = basic_staj_event<char>((int64_t)t[k].val, semantic_tag::none); break;
                case 4: ev[k] = basic_staj_event<char>(t[k].val != 0, semantic_tag::none); break;
                case 5: ev[k] = basic_staj_event<char>(staj_events::null_value); break;
                case 6: ev[k] = basic_staj_event<char>(staj_events::begin_object); break;
                case 7: ev[k] = basic_staj_event<char>(staj_events::end_object); break;
                default: ev[k] = basic_staj_event<char>(1.5, semantic_tag::none); break;
            }
        }
    }
    bool done() const override { return i >= n; }
    const basic_staj_event<char>& current() const override { return ev[i < 6 ? i : 5]; }
    void read_to(basic_json_visitor<char>&) override {}
    void read_to(basic_json_visitor<char>&, std::error_code&) override {}
    void next() override { std::error_code ec; next(ec); }
    void next(std::error_code&) override { if (i + 1 >= n) overrun = 1; else ++i; }   // advancing past the last event is recorded, the position stays on the last event
    const ser_context& context() const override { return *this; }
    std::size_t line() const override { return 1; }
    std::size_t column() const override { return i; }
};
struct tres { int ok; int ec; long long v0; long long v1; unsigned pos; unsigned overrun; };
KFN void k_dec_array2(const tev* t, unsigned n, tres* r) {
    mcursor c(t, n); auto res = reflect::decode_traits<std::array<uint16_t, 2>>::decode(make_alloc_set(), c);
    r->ok = res ? 1 : 0; r->ec = res ? 0 : res.error().code().value(); r->v0 = res ? (*res)[0] : 0; r->v1 = res ? (*res)[1] : 0; r->pos = c.i; r->overrun = c.overrun;
}
KFN void k_dec_pair(const tev* t, unsigned n, tres* r) {
    mcursor c(t, n); auto res = reflect::decode_traits<std::pair<int32_t, bool>>::decode(make_alloc_set(), c);
    r->ok = res ? 1 : 0; r->ec = res ? 0 : res.error().code().value(); r->v0 = res ? (*res).first : 0; r->v1 = res ? (long long)(*res).second : 0; r->pos = c.i; r->overrun = c.overrun;
}
KFN void k_dec_scalar_i16(const tev* t, unsigned n, tres* r) {
    mcursor c(t, n); auto res = reflect::decode_traits<int16_t>::decode(make_alloc_set(), c);
    r->ok = res ? 1 : 0; r->ec = res ? 0 : res.error().code().value(); r->v0 = res ? *res : 0; r->v1 = 0; r->pos = c.i; r->overrun = c.overrun;
}
// ---- basic_json route with a model Json: an array of mj_size elements, element k is an integer iff bit k of mj_intmask is set (value mj_val[k])
extern "C" { extern unsigned mj_is_array; extern unsigned long mj_size; extern unsigned mj_intmask; long long mj_getval(unsigned long i); void mj_access(unsigned long i); }
struct MJE;
struct MJA {
    using char_type = char;
    bool is_array() const { return mj_is_array != 0; }
    std::size_t size() const { return mj_size; }
    MJE operator[](std::size_t i) const;
    struct rng { const MJA* a; struct it { std::size_t i; MJE operator*() const; it& operator++() { ++i; return *this; } bool operator!=(const it& o) const { return i != o.i; } }; it begin() const { return it{0}; } it end() const { return it{a->size()}; } };
    rng array_range() const { return rng{this}; }
};
struct MJE {
    std::size_t i;
    template <class T> bool is() const { return i < 4 && ((mj_intmask >> i) & 1); }
    template <class T, class A, class TA> conversion_result<T> try_as(const allocator_set<A, TA>&) const {
        if (i < 4 && ((mj_intmask >> i) & 1)) return conversion_result<T>((T)mj_getval(i));
        return conversion_result<T>(jsoncons::unexpect, conv_errc::not_integer);
    }
};
inline MJE MJA::operator[](std::size_t i) const { mj_access(i); return MJE{i}; }
inline MJE MJA::rng::it::operator*() const { mj_access(i); return MJE{i}; }
KFN void k_json_tuple2(tres* r) { MJA j; auto res = reflect::json_traits<MJA, std::tuple<int32_t, int32_t>>::try_as(make_alloc_set(), j); r->ok = res ? 1 : 0; r->ec = res ? 0 : res.error().code().value(); r->v0 = res ? std::get<0>(*res) : 0; r->v1 = res ? std::get<1>(*res) : 0; }
KFN int k_json_tuple2_is() { MJA j; return reflect::json_traits<MJA, std::tuple<int32_t, int32_t>>::is(j) ? 1 : 0; }
KFN void k_json_array2(tres* r) { MJA j; auto res = reflect::json_traits<MJA, std::array<int32_t, 2>>::try_as(make_alloc_set(), j); r->ok = res ? 1 : 0; r->ec = res ? 0 : res.error().code().value(); r->v0 = res ? (*res)[0] : 0; r->v1 = res ? (*res)[1] : 0; }
KFN int k_json_array2_is() { MJA j; return reflect::json_traits<MJA, std::array<int32_t, 2>>::is(j) ? 1 : 0; }
KFN void k_json_pair(tres* r) { MJA j; auto res = reflect::json_traits<MJA, std::pair<int32_t, int32_t>>::try_as(make_alloc_set(), j); r->ok = res ? 1 : 0; r->ec = res ? 0 : res.error().code().value(); r->v0 = res ? (*res).first : 0; r->v1 = res ? (*res).second : 0; }
KFN void k_dec_array2_i32(const tev* t, unsigned n, tres* r) {
    mcursor c(t, n); auto res = reflect::decode_traits<std::array<int32_t, 2>>::decode(make_alloc_set(), c);
    r->ok = res ? 1 : 0; r->ec = res ? 0 : res.error().code().value(); r->v0 = res ? (*res)[0] : 0; r->v1 = res ? (*res)[1] : 0; r->pos = c.i; r->overrun = c.overrun;
}
// sequence containers through the streaming route: elements arrive in order
#include <forward_list>

#include <vector>
struct sres4 { int ok; int ec; unsigned count; long long v[5]; unsigned pos; };
template <class C> static inline void dec_seq(const tev* t, unsigned n, sres4* r) {
    mcursor c(t, n); auto res = reflect::decode_traits<C>::decode(make_alloc_set(), c);
    r->ok = res ? 1 : 0; r->ec = res ? 0 : res.error().code().value(); r->count = 0; r->pos = c.i;
    if (res) { for (auto it = (*res).begin(); it != (*res).end() && r->count < 5; ++it) r->v[r->count++] = *it; }
}
KFN void k_dec_flist(const tev* t, unsigned n, sres4* r) { dec_seq<std::forward_list<uint16_t>>(t, n, r); }
KFN void k_dec_vector(const tev* t, unsigned n, sres4* r) { dec_seq<std::vector<uint16_t>>(t, n, r); }

// ---- encode side: reflect::encode_traits<integer / std::pair> on a recording visitor (which visit function is called, with which value)
#include <jsoncons/reflect/encode_traits.hpp>
#include "../jrecvis.h"
template <class T> static inline void enc_int(unsigned long long bits, jev* out, unsigned* n) { jrec v(out, 4); T x = (T)bits; auto r = reflect::encode_traits<T>::encode(make_alloc_set(), x, v); *n = v.n | (r ? 0u : 0x100u); }
#define ENCINT(NAME, T) KFN void k_encint_##NAME(unsigned long long bits, jev* out, unsigned* n) { enc_int<T>(bits, out, n); }
ENCINT(i8, int8_t) ENCINT(i16, int16_t) ENCINT(i32, int32_t) ENCINT(i64, int64_t) ENCINT(u8, uint8_t) ENCINT(u16, uint16_t) ENCINT(u32, uint32_t) ENCINT(u64, uint64_t)
KFN void k_encpair_u64_i64(unsigned long long a, unsigned long long b, jev* out, unsigned* n) { jrec v(out, 4); std::pair<uint64_t, int64_t> x(a, (int64_t)b); auto r = reflect::encode_traits<std::pair<uint64_t, int64_t>>::encode(make_alloc_set(), x, v); *n = v.n | (r ? 0u : 0x100u); }
