/* harnesses for kernel "typed" (C17): shape errors are reported by both routes, nothing is read out of bounds, no partly filled value is returned */
#include "kernel.c"
#include "vharness.h"
#define NEED_THROWS
#include "vmodels.h"
#ifndef N
#define N 4
#endif
typedef struct S_struct_2etev tev_t; typedef struct S_struct_2etres tres_t;
INPUT_ARR(u32, IN_kind, 6) INPUT_ARR(u64, IN_val, 6)
enum { K_BA = 0, K_EA, K_UINT, K_INT, K_BOOL, K_NULL, K_BO, K_EO, K_DBL };
static int intlike(u32 k) { return k == K_UINT || k == K_INT || k == K_BOOL || k == K_DBL; }   /* what basic_staj_event::get<integer> converts */
static int boollike(u32 k) { return k == K_UINT || k == K_INT || k == K_BOOL || k == K_DBL; }
static s64 as_int(u32 k, u64 v) { return k == K_BOOL ? (v != 0) : k == K_DBL ? 1 : (s64)v; }   /* the model cursor's double event is 1.5 */
static void mk(tev_t* t) { for (int i = 0; i < N; i++) { t[i].f0 = IN_kind[i]; t[i].f1 = IN_val[i]; } }
void __cxa_pure_virtual(void) { P(0, "pure virtual call"); PATH_END(); }
HARNESS(h_dec_array2) {
  HAVOC_ARR(IN_kind, 6); HAVOC_ARR(IN_val, 6); for (int i = 0; i < N; i++) ASSUME(IN_kind[i] <= K_DBL);
  tev_t t[6]; memset(t, 0, sizeof t); mk(t); tres_t r; memset(&r, 0, sizeof r); IRC_THROW_ALLOWED = 0;
  k_dec_array2(t, N, &r);
  int shape = N >= 4 && IN_kind[0] == K_BA && intlike(IN_kind[1]) && intlike(IN_kind[2]) && IN_kind[3] == K_EA;
  if (r.f0) {
    P(N >= 4 && IN_kind[0] == K_BA && IN_kind[3] == K_EA && intlike(IN_kind[1]) && intlike(IN_kind[2]), "std::array<T,2> is decoded only from an array of exactly two convertible elements - never partly filled, never silently truncated");
    if (shape) P(r.f2 == (u16)as_int(IN_kind[1], IN_val[1]) && r.f3 == (u16)as_int(IN_kind[2], IN_val[2]) && r.f4 == 3 && r.f5 == 0, "elements decoded in order, cursor left on end_array");
  } else P(!shape, "a well-shaped two-element array decodes");
  WIT(N >= 4 ? (r.f0 && IN_val[1] == 7) : (!r.f0 && r.f1 != 0));
}
HARNESS(h_dec_pair) {
  HAVOC_ARR(IN_kind, 6); HAVOC_ARR(IN_val, 6); for (int i = 0; i < N; i++) ASSUME(IN_kind[i] <= K_DBL);
  tev_t t[6]; memset(t, 0, sizeof t); mk(t); tres_t r; memset(&r, 0, sizeof r); IRC_THROW_ALLOWED = 0;
  k_dec_pair(t, N, &r);
  int shape = N >= 4 && IN_kind[0] == K_BA && intlike(IN_kind[1]) && boollike(IN_kind[2]) && IN_kind[3] == K_EA;
  if (r.f0) { P(shape, "std::pair is decoded only from an array of exactly two convertible elements");
    if (shape) P(r.f2 == (s32)as_int(IN_kind[1], IN_val[1]) && r.f4 == 3 && r.f5 == 0, "first element exact, cursor left on end_array"); }
  else P(!shape, "a well-shaped pair decodes");
  WIT(N >= 4 ? (r.f0 && IN_val[1] == 7) : (!r.f0 && r.f1 != 0));
}
/* sequence containers: [begin_array, e1..eNE, end_array] decodes to exactly those NE elements in order */
#ifndef NE
#define NE 3
#endif
#ifndef SEQ
#define SEQ 0
#endif
typedef struct S_struct_2esres4 sres4_t;
HARNESS(h_dec_seq) {
  HAVOC_ARR(IN_kind, 6); HAVOC_ARR(IN_val, 6);
  tev_t t[6]; memset(t, 0, sizeof t); t[0].f0 = K_BA; for (int i = 0; i < NE; i++) { ASSUME(IN_kind[1 + i] == K_UINT || IN_kind[1 + i] == K_INT || IN_kind[1 + i] == K_BOOL); t[1 + i].f0 = IN_kind[1 + i]; t[1 + i].f1 = IN_val[1 + i]; } t[1 + NE].f0 = K_EA;
  sres4_t r; memset(&r, 0, sizeof r); IRC_THROW_ALLOWED = 0;
#if SEQ == 0
  k_dec_flist(t, NE + 2, &r);
#else
  k_dec_vector(t, NE + 2, &r);
#endif
  P(r.f0 == 1 && r.f2 == NE, "a well-formed array of scalars decodes to a sequence of the same length");
  for (int i = 0; i < NE; i++) P(r.f3.a[i] == (u16)as_int(IN_kind[1 + i], IN_val[1 + i]), "elements are decoded in order, each exactly");
  P(r.f4 == NE + 1, "cursor left on end_array");
  WIT(r.f0 == 1 && (NE == 0 || r.f3.a[0] == 7));
}
/* basic_json route on the model Json */
u32 mj_is_array; u64 mj_size; u32 mj_intmask; s64 mj_val[4]; u32 n_access;
u64 mj_getval(u64 i) { return (u64)mj_val[i < 4 ? i : 3]; }
INPUT(u32, IN_isarr) INPUT(u64, IN_size) INPUT(u32, IN_mask)
void mj_access(u64 i) { n_access++; P(mj_is_array, "element access on a value that is not an array (basic_json::operator[] would throw / is() is noexcept)"); P(i < mj_size, "element access within the array (no out-of-bounds read)"); }
static void setmj(void) { HAVOC(IN_isarr); HAVOC(IN_size); HAVOC(IN_mask); HAVOC_ARR(IN_val, 6); ASSUME(IN_isarr <= 1 && IN_mask < 16); mj_is_array = IN_isarr; mj_size = IN_size; mj_intmask = IN_mask; for (int i = 0; i < 4; i++) mj_val[i] = (s32)IN_val[i]; n_access = 0; }
HARNESS(h_json_tuple2) {
  setmj(); tres_t r; memset(&r, 0, sizeof r); IRC_THROW_ALLOWED = 0;
  k_json_tuple2(&r);
  if (r.f0) P(IN_isarr && IN_size >= 2 && (IN_mask & 3) == 3 && r.f2 == mj_val[0] && r.f3 == mj_val[1], "tuple<int,int> converts only from an array with at least two integer elements, values exact");
  else P(!(IN_isarr && IN_size >= 2 && (IN_mask & 3) == 3), "a well-shaped tuple converts");
  WIT(r.f0 && IN_size == 2);
}
HARNESS(h_json_tuple2_is) {
  setmj(); IRC_THROW_ALLOWED = 0;
  int is = k_json_tuple2_is();
  if (is) P(IN_isarr && IN_size >= 2 && (IN_mask & 3) == 3, "is<tuple<int,int>>() only for arrays with at least two integer elements");
  WIT(is && IN_size == 2);
}
HARNESS(h_json_array2) {
  setmj(); tres_t r; memset(&r, 0, sizeof r); IRC_THROW_ALLOWED = 0;
  k_json_array2(&r);
  int shape = IN_isarr && IN_size == 2 && (IN_mask & 3) == 3;
  if (r.f0) P(shape && r.f2 == mj_val[0] && r.f3 == mj_val[1], "std::array<int,2> converts only from an array of exactly two integers"); else P(!shape, "a well-shaped array converts");
  WIT(r.f0);
}
HARNESS(h_json_pair) {
  setmj(); tres_t r; memset(&r, 0, sizeof r); IRC_THROW_ALLOWED = 0;
  k_json_pair(&r);
  int shape = IN_isarr && IN_size == 2 && (IN_mask & 3) == 3;
  if (r.f0) P(shape && r.f2 == mj_val[0] && r.f3 == mj_val[1], "std::pair<int,int> converts only from an array of exactly two integers"); else P(!shape, "a well-shaped pair converts");
  WIT(r.f0);
}
/* route independence for std::array<int32_t,2>: the same array of SZ elements through the streaming traits and through the basic_json traits */
#ifndef SZ
#define SZ 2
#endif
HARNESS(h_route_array2) {
  HAVOC(IN_mask); HAVOC_ARR(IN_val, 6); ASSUME(IN_mask < 16);
  mj_is_array = 1; mj_size = SZ; mj_intmask = IN_mask; for (int i = 0; i < 4; i++) mj_val[i] = (s32)IN_val[i]; n_access = 0;
  tev_t t[6]; memset(t, 0, sizeof t); t[0].f0 = K_BA; for (int i = 0; i < SZ; i++) { t[1 + i].f0 = ((IN_mask >> i) & 1) ? K_INT : K_NULL; t[1 + i].f1 = (u64)(s64)(s32)IN_val[i]; } t[1 + SZ].f0 = K_EA;
  tres_t a, b; memset(&a, 0, sizeof a); memset(&b, 0, sizeof b); IRC_THROW_ALLOWED = 0;
  k_dec_array2_i32(t, SZ + 2, &a); k_json_array2(&b);
  P(a.f0 == b.f0, "streaming decode_traits and basic_json json_traits agree on whether [e0..] converts to std::array<int,2>");
  if (a.f0 && b.f0) P(a.f2 == b.f2 && a.f3 == b.f3, "both routes produce the same value");
  WIT(SZ == 2 ? a.f0 : !a.f0);
}

/* encode side (route independence, C17): the streaming encode_traits of an integer type emit exactly one integer event that DENOTES the C++ value
   (int64 event with that signed value, or uint64 event with that unsigned value) - so every format encoder downstream writes the same number as the basic_json route */
#ifndef TNAME
#define TNAME u64
#endif
#ifndef TBITS
#define TBITS 64
#endif
#ifndef TSIGNED
#define TSIGNED 0
#endif
enum { J_NONE = 0, J_BEGIN_OBJECT, J_END_OBJECT, J_BEGIN_ARRAY, J_END_ARRAY, J_KEY, J_NULL, J_BOOL, J_STRING, J_UINT, J_INT, J_DOUBLE, J_HALF, J_BYTES };
#define ENC2(n) k_encint_##n
#define ENC1(n) ENC2(n)
INPUT(u64, IN_ev) INPUT(u64, IN_ev2)
static int denotes(const struct S_struct_2ejev* e, int is_signed, u64 val) {   /* val: the C++ value, sign-extended to 64 bits when signed */
  if (e->f0 == J_INT) return is_signed ? e->f3 == val : ((s64)e->f3 >= 0 && e->f3 == val);
  if (e->f0 == J_UINT) return is_signed ? ((s64)val >= 0 && e->f3 == val) : e->f3 == val;
  return 0;
}
HARNESS(h_enc_int) {
  HAVOC(IN_ev);
  u64 val = TBITS == 64 ? IN_ev : (TSIGNED ? (u64)(((s64)(IN_ev << (64 - TBITS))) >> (64 - TBITS)) : (IN_ev & (((u64)1 << (TBITS % 64)) - 1)));
  struct S_struct_2ejev ev[4]; memset(ev, 0, sizeof ev); u32 n = 0; IRC_THROW_ALLOWED = 0;
  ENC1(TNAME)(IN_ev, ev, &n);
  P(n == 1, "exactly one event, no error");
  P(denotes(&ev[0], TSIGNED, val), "the integer event denotes the C++ value (signed values as int64, unsigned values never as a negative int64)");
  P(ev[0].f1 == 0, "no semantic tag");
  WIT(TSIGNED ? (s64)val < -5 : val > (TBITS == 64 ? 0x8000000000000000ULL : 100));
}
HARNESS(h_enc_pair) {
  HAVOC(IN_ev); HAVOC(IN_ev2);
  struct S_struct_2ejev ev[4]; memset(ev, 0, sizeof ev); u32 n = 0; IRC_THROW_ALLOWED = 0;
  k_encpair_u64_i64(IN_ev, IN_ev2, ev, &n);
  P(n == 4 && ev[0].f0 == J_BEGIN_ARRAY && ev[3].f0 == J_END_ARRAY, "std::pair is written as an array of exactly two elements");
  P(denotes(&ev[1], 0, IN_ev) && denotes(&ev[2], 1, IN_ev2), "first and second are written in order and denote their values");
  WIT(IN_ev > 0x8000000000000000ULL && (s64)IN_ev2 < 0);
}
