"""kernel typed: REAL reflect::decode_traits<T>::decode on a model staj cursor (streaming route) and REAL reflect::json_traits<Json,T>::try_as/is on a model Json
(basic_json route).  Serves C17 (shape errors are conversion errors on both routes, no out-of-bounds read, no partly filled value), C05."""
ASSUMPTIONS = ['typed/h_dec_*: event count concrete per job (1..5), event kinds (begin/end array/object, uint64, int64, bool, null, double) and payloads symbolic',
               'typed/h_json_*: Json = model array (is_array symbolic, size ANY uint64, elements integer or not by a symbolic mask) whose element accesses are recorded and bound-checked',
               'typed: integer narrowing by static_cast in basic_staj_event::get<T> is the documented behaviour of both routes and is not asserted against']
STUB_NOTES = ['model basic_staj_cursor<char> (events in a fixed array; advancing past the last event is recorded)', 'model Json MJA/MJE for the json_traits route']
TRAP = r'_M_realloc_insert.*basic_json|_M_default_append'
def jobs(tier):
    J = []
    for n in (1, 2, 3, 4, 5):
        J.append(dict(id='dec_array2_n%d' % n, harness='h_dec_array2', props=['C17'], unwind=8, defs=dict(N=n), timeout=300, desc='decode_traits<std::array<uint16_t,2>>: success iff exactly [begin_array, e0, e1, end_array]; values exact', bound='all event sequences of length %d' % n))
        J.append(dict(id='dec_pair_n%d' % n, harness='h_dec_pair', props=['C17'], unwind=8, defs=dict(N=n), timeout=300, desc='decode_traits<std::pair<int32_t,bool>>: success iff exactly [begin_array, e0, e1, end_array]', bound='all event sequences of length %d' % n))
    for h, d in (('h_json_tuple2', 'json_traits<J,tuple<int,int>>::try_as: no out-of-bounds element access, too few elements -> error'), ('h_json_tuple2_is', 'json_traits<J,tuple<int,int>>::is: no out-of-bounds / non-array element access'),
                 ('h_json_array2', 'json_traits<J,std::array<int,2>>::try_as'), ('h_json_pair', 'json_traits<J,std::pair<int,int>>::try_as')):
        J.append(dict(id=h[2:], harness=h, props=['C17', 'C05'], unwind=8, defs={}, timeout=300, desc=d, bound='array-or-not, any size (uint64), any element kinds'))
    for sq, sn in ((0, 'forward_list'), (2, 'vector')):
        for ne in ((0, 1, 3, 4) if sq == 0 else (0,)):   # std::vector growth (realloc) does not finish within budget beyond the empty array
            J.append(dict(id='dec_%s_ne%d' % (sn, ne), harness='h_dec_seq', props=['C17'], unwind=8, defs=dict(SEQ=sq, NE=ne), timeout=300, mem_gb=4, desc='decode_traits<std::%s<uint16_t>>: elements in order, each exact' % sn, bound='arrays of %d scalar elements (uint64/int64/bool, any payload)' % ne))
    for sz in (0, 1, 2, 3):
        J.append(dict(id='route_array2_sz%d' % sz, harness='h_route_array2', props=['C17'], unwind=8, defs=dict(SZ=sz), timeout=300, desc='std::array<int,2>: streaming route and basic_json route agree (accept/reject, value)', bound='arrays of %d elements, each an int32 or null' % sz))
    for tn, bits, sg in (('i8', 8, 1), ('i16', 16, 1), ('i32', 32, 1), ('i64', 64, 1), ('u8', 8, 0), ('u16', 16, 0), ('u32', 32, 0), ('u64', 64, 0)):
        J.append(dict(id='enc_int_%s' % tn, harness='h_enc_int', props=['C17'], unwind=8, defs=dict(TNAME=tn, TBITS=bits, TSIGNED=sg), timeout=300, desc='encode_traits<%s>: one integer event that denotes the C++ value (the streaming route writes the same number as the basic_json route)' % tn, bound='all values of the type'))
    J.append(dict(id='enc_pair', harness='h_enc_pair', props=['C17'], unwind=8, defs={}, timeout=300, desc='encode_traits<std::pair<uint64_t,int64_t>>: array of exactly two elements, in order, denoting their values', bound='all 2^128 pairs'))
    return J
