// kernel "jptr": jsonpointer::detail::resolve<Json> (both overloads) instantiated with a model Json, jsonpointer::escape (generic Result),
// and basic_json_pointer<char>::parse / to_string (real std::string / vector<string> code).
#include "vshim.h"
#include <jsoncons/json.hpp>
#include <jsoncons_ext/jsonpointer/jsonpointer.hpp>
using namespace jsoncons;
extern "C" { extern unsigned mj_kind; extern unsigned long mj_size; extern unsigned mj_has_key; void mj_at_index(unsigned long i); void mj_at_key(const char* s, unsigned long n); void mj_emplace(const char* s, unsigned long n); }
struct MJ {
    using char_type = char; using string_view_type = jsoncons::string_view; using string_type = std::string;
    struct kv { MJ* v; MJ& value() { return *v; } };
    bool is_array() const { return mj_kind == 1; }
    bool is_object() const { return mj_kind == 2; }
    std::size_t size() const { return mj_size; }
    const MJ& at(std::size_t i) const { mj_at_index(i); return *this; }
    MJ& at(std::size_t i) { mj_at_index(i); return *this; }
    bool contains(const string_view_type& k) const { return mj_has_key != 0; }
    const MJ& at(const string_view_type& k) const { mj_at_key(k.data(), k.size()); return *this; }
    MJ& at(const string_view_type& k) { mj_at_key(k.data(), k.size()); return *this; }
    std::pair<kv*, bool> try_emplace(const string_view_type& k, const MJ&) { mj_emplace(k.data(), k.size()); static kv e; e.v = this; return {&e, true}; }
};
KFN int k_resolve_c(const char* tok, unsigned long n) { MJ j; std::error_code ec; jsonpointer::detail::resolve<MJ>((const MJ*)&j, jsoncons::string_view(tok, n), ec); return ec.value(); }
KFN int k_resolve_m(const char* tok, unsigned long n, int create) { MJ j; std::error_code ec; jsonpointer::detail::resolve<MJ>(&j, jsoncons::string_view(tok, n), create != 0, ec); return ec.value(); }
KFN unsigned long k_escape(const char* s, unsigned long n, char* buf, unsigned long cap) { fsink k{buf, 0, cap}; jsoncons::string_view sv(s, n); jsonpointer::escape(sv, k); return k.n; }
// ---- K14.4: the final step of add / add_if_absent / replace / remove on a one-token pointer, with a model Json that records every edit
extern "C" { void mj_op(unsigned kind, unsigned long index, const char* key, unsigned long keylen); }
enum { OP_APPEND = 1, OP_INSERT, OP_ERASE_AT, OP_ASSIGN_AT, OP_INSERT_OR_ASSIGN, OP_ERASE_KEY, OP_TRY_EMPLACE };
struct MJ2 {
    using char_type = char; using string_view_type = jsoncons::string_view; using string_type = std::string;
    unsigned long last_at;
    bool is_array() const { return mj_kind == 1; }
    bool is_object() const { return mj_kind == 2; }
    std::size_t size() const { return mj_size; }
    struct ait { MJ2* j; unsigned long i; ait operator+(std::size_t k) const { return ait{j, i + k}; } MJ2& operator*() const { return *j; } };
    struct arange { MJ2* j; ait begin() const { return ait{j, 0}; } ait end() const { return ait{j, j->size()}; } };
    arange array_range() { return arange{this}; }
    template <class V> MJ2& emplace_back(V&&) { mj_op(OP_APPEND, mj_size, nullptr, 0); mj_size++; return *this; }
    template <class V> ait insert(ait pos, V&&) { mj_op(OP_INSERT, pos.i, nullptr, 0); mj_size++; return pos; }
    void erase(ait pos) { mj_op(OP_ERASE_AT, pos.i, nullptr, 0); }
    void erase(const string_view_type& k) { mj_op(OP_ERASE_KEY, 0, k.data(), k.size()); }
    MJ2& at(std::size_t i) { mj_at_index(i); last_at = i; return *this; }
    const MJ2& at(std::size_t i) const { mj_at_index(i); return *this; }
    MJ2& at(const string_view_type& k) { mj_at_key(k.data(), k.size()); return *this; }
    const MJ2& at(const string_view_type& k) const { mj_at_key(k.data(), k.size()); return *this; }
    MJ2& operator=(int) { mj_op(OP_ASSIGN_AT, last_at, nullptr, 0); return *this; }
    bool contains(const string_view_type&) const { return mj_has_key != 0; }
    struct kv { MJ2* v; MJ2& value() { return *v; } };
    template <class V> std::pair<kv*, bool> insert_or_assign(const string_view_type& k, V&&) { mj_op(OP_INSERT_OR_ASSIGN, 0, k.data(), k.size()); static kv e; e.v = this; return {&e, true}; }
    template <class V> std::pair<kv*, bool> try_emplace(const string_view_type& k, V&&) { mj_op(OP_TRY_EMPLACE, 0, k.data(), k.size()); static kv e; e.v = this; return {&e, true}; }
};
// which: 0 add, 1 add_if_absent, 2 replace, 3 remove
KFN int k_edit1(unsigned which, const char* tok, unsigned long n, int create) {
    MJ2 j; j.last_at = 0; std::error_code ec;
    jsonpointer::json_pointer p; p.tokens_.reserve(2); p.tokens_.emplace_back(tok, n);
    if (which == 0) jsonpointer::add(j, p, 7, create != 0, ec);
    else if (which == 1) jsonpointer::add_if_absent(j, p, 7, create != 0, ec);
    else if (which == 2) jsonpointer::replace(j, p, 7, create != 0, ec);
    else jsonpointer::remove(j, p, ec);
    return ec.value();
}
