// kernel "jptr": jsonpointer::detail::resolve<Json> (both overloads) instantiated with a model Json, jsonpointer::escape (generic Result),
// and basic_json_pointer<char>::parse / to_string (real std::string / vector<string> code).
#include "vshim.h"
#include <jsoncons/json.hpp>
#include <jsoncons_ext/jsonpointer/jsonpointer.hpp>
using namespace jsoncons;
extern "C" { extern unsigned mj_kind; extern unsigned long mj_size; extern unsigned mj_has_key; void mj_at_index(unsigned long i); void mj_at_key(const char* s, unsigned long n); void mj_emplace(const char* s, unsigned long n); }
struct MJ {
    using char_type = char; using string_view_type = jsoncons::string_view; using string_type = std::string;
    struct kv { MJ* v; MJ& value() { return *v; } };
    bool is_array() const { return mj_kind == 1; }
    bool is_object() const { return mj_kind == 2; }
    std::size_t size() const { return mj_size; }
    const MJ& at(std::size_t i) const { mj_at_index(i); return *this; }
    MJ& at(std::size_t i) { mj_at_index(i); return *this; }
    bool contains(const string_view_type& k) const { return mj_has_key != 0; }
    const MJ& at(const string_view_type& k) const { mj_at_key(k.data(), k.size()); return *this; }
    MJ& at(const string_view_type& k) { mj_at_key(k.data(), k.size()); return *this; }
    std::pair<kv*, bool> try_emplace(const string_view_type& k, const MJ&) { mj_emplace(k.data(), k.size()); static kv e; e.v = this; return {&e, true}; }
};
KFN int k_resolve_c(const char* tok, unsigned long n) { MJ j; std::error_code ec; jsonpointer::detail::resolve<MJ>((const MJ*)&j, jsoncons::string_view(tok, n), ec); return ec.value(); }
KFN int k_resolve_m(const char* tok, unsigned long n, int create) { MJ j; std::error_code ec; jsonpointer::detail::resolve<MJ>(&j, jsoncons::string_view(tok, n), create != 0, ec); return ec.value(); }
KFN unsigned long k_escape(const char* s, unsigned long n, char* buf, unsigned long cap) { fsink k{buf, 0, cap}; jsoncons::string_view sv(s, n); jsonpointer::escape(sv, k); return k.n; }
