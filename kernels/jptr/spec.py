"""kernel jptr: jsonpointer::detail::resolve<Json> (const and mutable overloads) on a model Json, jsonpointer::escape.  Serves C14 (K14.2, K14.3)."""
ASSUMPTIONS = ['jptr/h_resolve_*: token length concrete per job (0..5 quick, ..7 thorough; plus 20/21-digit jobs for the size_t boundary in thorough), array size any uint64, model Json records element/member accesses']
TRAP = r'_M_realloc_insert'
STUB_NOTES = ['model Json (MJ): is_array/is_object from a symbolic kind, size() symbolic, at(index)/at(key)/try_emplace record their argument; contains() returns a symbolic flag']
def jobs(tier):
    J = []
    ns = [0, 1, 2, 3, 4, 5] + ([6, 7, 20, 21] if tier == 'thorough' else [])
    for n in ns:
        for h in ('h_resolve_const', 'h_resolve_mut'):
            J.append(dict(id='%s_n%d' % (h[2:], n), harness=h, props=['C14'], unwind=max(n, 21) + 3, defs=dict(N=n), timeout=600, desc='detail::resolve: RFC 6901 array-index syntax (no leading zeros), "-", index < size, exact key; errors leave the target untouched', bound='all tokens of length %d, any array size, any kind' % n))
    for n in [1, 2, 3, 4] + ([5, 6] if tier == 'thorough' else []):
        J.append(dict(id='escape_n%d' % n, harness='h_escape', props=['C14'], unwind=n + 3, defs=dict(N=n), timeout=300, desc='jsonpointer::escape: ~ -> ~0, / -> ~1, inverse of RFC 6901 un-escaping', bound='all strings of length %d' % n))
    for w, wn in ((0, 'add'), (1, 'add_if_absent'), (2, 'replace'), (3, 'remove')):
        for n in [0, 1, 2, 3] + ([4, 5, 20] if tier == 'thorough' else []):
            J.append(dict(id='edit_%s_n%d' % (wn, n), harness='h_edit', props=['C14'], unwind=max(n, 21) + 3, defs=dict(N=n, WHICH=w), timeout=600, mem_gb=6, desc='jsonpointer::%s through a one-token pointer: exactly the addressed edit (insert/append/assign/erase at the index, member by exact name) or an error with nothing modified' % wn, bound='all tokens of length %d, any array size, array/object/scalar target' % n))
    return J
