/* harnesses for kernel "jptr" (C14 K14.2 escape, K14.3 array-index syntax / '-' / key lookup in detail::resolve) */
#include "kernel.c"
#include "vharness.h"
#define NEED_THROWS
#include "vmodels.h"
#ifndef N
#define N 3
#endif
INPUT_ARR(u8, IN_s, N) INPUT(u32, IN_kind) INPUT(u64, IN_size) INPUT(u32, IN_has_key) INPUT(u32, IN_create)
u32 mj_kind; u64 mj_size; u32 mj_has_key;
u64 at_index; u32 n_at_index, n_at_key, n_emplace; int key_ok;
static u8* cur_tok;
void mj_at_index(u64 i) { P(i < mj_size, "array element access in bounds"); at_index = i; n_at_index++; }
void mj_at_key(u8* s, u64 n) { n_at_key++; key_ok = (n == N); for (int k = 0; k < N; k++) if ((u64)k < n && s[k] != cur_tok[k]) key_ok = 0; }
void mj_emplace(u8* s, u64 n) { n_emplace++; key_ok = (n == N); for (int k = 0; k < N; k++) if ((u64)k < n && s[k] != cur_tok[k]) key_ok = 0; }
enum { E_OK = 0, E_EXPECTED_SLASH = 1, E_INDEX_EXCEEDS = 2, E_EXPECTED_0_OR_1 = 3, E_INVALID_INDEX = 4, E_KEY_NOT_FOUND = 5, E_KEY_EXISTS = 6, E_EXPECTED_OBJ_OR_ARR = 7 };
/* RFC 6901 section 4: array-index = %x30 / ( %x31-39 *(%x30-39) ) ; "-" = past the end */
static int ref_index(const u8* s, u64 n, u128* v) { if (n == 0) return 0; if (s[0] == '0') { *v = 0; return n == 1; } if (s[0] < '1' || s[0] > '9') return 0; u128 a = 0; for (int i = 0; i < N; i++) if ((u64)i < n) { if (s[i] < '0' || s[i] > '9') return 0; a = a * 10 + (s[i] - '0'); } *v = a; return 1; }
static void run(int mut) {
  HAVOC_ARR(IN_s, N); HAVOC(IN_kind); HAVOC(IN_size); HAVOC(IN_has_key); HAVOC(IN_create);
  ASSUME(IN_kind <= 2 && IN_has_key <= 1 && IN_create <= 1);
  u8* s = malloc(N ? N : 1); ASSUME(s != 0); if (N) memcpy(s, IN_s, N); cur_tok = s;
  mj_kind = IN_kind; mj_size = IN_size; mj_has_key = IN_has_key; n_at_index = n_at_key = n_emplace = 0; key_ok = 1;
  u32 ec = mut ? k_resolve_m(s, N, IN_create) : k_resolve_c(s, N);
  if (IN_kind == 1) {
    u128 v = 0; int g = ref_index(s, N, &v);
    if (N == 1 && s[0] == '-') P(ec != 0 /* INDEX_EXCEEDS today; any error code is a refusal */ && n_at_index == 0, "'-' addresses the (nonexistent) element after the last: index_exceeds_array_size");
    else if (!g) P(ec != 0 /* INVALID_INDEX today; any error code is a refusal */ && n_at_index == 0, "a token that is not an RFC 6901 array-index (leading zero, sign, non-digit, empty) is invalid_index");
    else if (v >= (u128)IN_size) P(ec != 0 /* INDEX_EXCEEDS today; any error code is a refusal */ && n_at_index == 0, "index >= size: index_exceeds_array_size");
    else P(ec == 0 && n_at_index == 1 && at_index == (u64)v, "valid index addresses exactly that element");
  } else if (IN_kind == 2) {
    if (IN_has_key) P(ec == 0 && n_at_key == 1 && key_ok && n_emplace == 0, "existing member is addressed by the exact token bytes");
    else if (mut && IN_create) P(ec == 0 && n_emplace == 1 && key_ok, "create_if_missing inserts the member with the exact token bytes");
    else P(ec != 0 /* KEY_NOT_FOUND today; any error code is a refusal */ && n_at_key == 0 && n_emplace == 0, "missing member: key_not_found, document untouched");
  } else P(ec != 0 /* EXPECTED_OBJ_OR_ARR today; any error code is a refusal */ && n_at_index + n_at_key + n_emplace == 0, "scalar target: expected_object_or_array");
  WIT(N == 0 ? ec != 0 : N >= 21 ? (ec != 0 && IN_kind == 1 && s[0] == '9' && s[N - 1] == '7') /* 21 digits never fit size_t: the reachable end is the refusal */ : (ec == 0 && IN_kind == 1 && (N < 2 || at_index >= 10)));
}
HARNESS(h_resolve_const) { run(0); }
HARNESS(h_resolve_mut) { run(1); }
HARNESS(h_escape) {
  HAVOC_ARR(IN_s, N); u8* s = malloc(N ? N : 1); ASSUME(s != 0); if (N) memcpy(s, IN_s, N);
  u8 out[2 * N + 2]; u64 w = k_escape(s, N, out, 2 * N + 2);
  P(w <= 2 * N, "at most two output chars per input char"); ASSUME(w <= 2 * N);
  /* reference un-escape (RFC 6901 section 4: ~1 -> '/', ~0 -> '~'), one unit per input char */
  u64 p = 0; int ok = 1;
  for (int i = 0; i < N; i++) { if (p >= w) { ok = 0; break; } u8 c = out[p];
    if (c == '/') { ok = 0; break; }
    if (c == '~') { if (p + 1 >= w || (out[p+1] != '0' && out[p+1] != '1')) { ok = 0; break; } c = out[p+1] == '0' ? '~' : '/'; p += 2; } else p += 1;
    if (c != s[i]) { ok = 0; break; } }
  P(ok && p == w, "escape output has no raw '/', '~' only as ~0/~1, and un-escapes to the input");
  WIT(w == 2 * N);
}

/* ---------------- K14.4: add / add_if_absent / replace / remove through a one-token pointer: exactly the RFC 6901 / RFC 6902 edit happens, or an error leaves the target untouched ---------------- */
#ifndef WHICH
#define WHICH 0
#endif
enum { OP_APPEND = 1, OP_INSERT, OP_ERASE_AT, OP_ASSIGN_AT, OP_INSERT_OR_ASSIGN, OP_ERASE_KEY, OP_TRY_EMPLACE };
u32 n_ops, op_kind; u64 op_index; int op_key_ok;
void mj_op(u32 kind, u64 index, u8* key, u64 keylen) { n_ops++; op_kind = kind; op_index = index; op_key_ok = (keylen == N); for (int k = 0; k < N; k++) if (key && (u64)k < keylen && key[k] != cur_tok[k]) op_key_ok = 0; }
HARNESS(h_edit) {
  HAVOC_ARR(IN_s, N); HAVOC(IN_kind); HAVOC(IN_size); HAVOC(IN_has_key); HAVOC(IN_create);
  ASSUME(IN_kind <= 2 && IN_has_key <= 1 && IN_create <= 1 && IN_size < 0xffffffffffffff00ULL);
  u8* s = malloc(N ? N : 1); ASSUME(s != 0); if (N) memcpy(s, IN_s, N); cur_tok = s;
  mj_kind = IN_kind; mj_size = IN_size; mj_has_key = IN_has_key; n_at_index = n_at_key = n_emplace = 0; key_ok = 1; n_ops = 0; op_kind = 0; op_index = 0; op_key_ok = 1;
  IRC_THROW_ALLOWED = 0;
  u32 ec = k_edit1(WHICH, s, N, IN_create);
  if (IN_kind == 1) {
    u128 v = 0; int g = ref_index(s, N, &v); int dash = (N == 1 && s[0] == '-');
    if (WHICH == 0 || WHICH == 1) {            /* add / add_if_absent: "-" and index == size append, index < size inserts (shifting), index > size is an error */
      if (dash) P(ec == 0 && n_ops == 1 && op_kind == OP_APPEND, "'-' appends");
      else if (!g) P(ec != 0 /* INVALID_INDEX today; any error code is a refusal */ && n_ops == 0, "not an RFC 6901 array-index: invalid_index, nothing modified");
      else if (v > (u128)IN_size) P(ec != 0 /* INDEX_EXCEEDS today; any error code is a refusal */ && n_ops == 0, "index > size: index_exceeds_array_size, nothing modified");
      else if (v == (u128)IN_size) P(ec == 0 && n_ops == 1 && op_kind == OP_APPEND, "index == size appends (RFC 6902 add)");
      else if (WHICH == 0) P(ec == 0 && n_ops == 1 && op_kind == OP_INSERT && op_index == (u64)v, "index < size inserts before that element");
      else P((ec == 0 && n_ops == 1 && op_kind == OP_INSERT && op_index == (u64)v) || (ec != 0 && n_ops == 0), "add_if_absent: inserts at the index or reports an error without modifying");
    } else {                                   /* replace / remove: the element must exist */
      if (dash) P(ec != 0 /* INDEX_EXCEEDS today; any error code is a refusal */ && n_ops == 0, "'-' addresses no existing element");
      else if (!g) P(ec != 0 /* INVALID_INDEX today; any error code is a refusal */ && n_ops == 0, "not an RFC 6901 array-index: invalid_index, nothing modified");
      else if (v >= (u128)IN_size) P(ec != 0 /* INDEX_EXCEEDS today; any error code is a refusal */ && n_ops == 0, "index >= size: index_exceeds_array_size, nothing modified");
      else if (WHICH == 2) P(ec == 0 && n_ops == 1 && op_kind == OP_ASSIGN_AT && op_index == (u64)v, "replace assigns exactly that element");
      else P(ec == 0 && n_ops == 1 && op_kind == OP_ERASE_AT && op_index == (u64)v, "remove erases exactly that element");
    }
  } else if (IN_kind == 2) {
    if (WHICH == 0) P(ec == 0 && n_ops == 1 && op_kind == OP_INSERT_OR_ASSIGN && op_key_ok, "add on an object inserts or replaces the member named by the exact token");
    else if (WHICH == 1) { if (IN_has_key) P(ec != 0 /* KEY_EXISTS today; any error code is a refusal */ && n_ops == 0, "add_if_absent on an existing member: key_already_exists, nothing modified"); else P(ec == 0 && n_ops == 1 && op_key_ok, "add_if_absent inserts the member named by the exact token"); }
    else if (WHICH == 2) { if (IN_has_key) P(ec == 0 && n_ops == 1 && op_kind == OP_INSERT_OR_ASSIGN && op_key_ok, "replace assigns the existing member"); else if (IN_create) P(ec == 0 && n_ops == 1 && op_kind == OP_TRY_EMPLACE && op_key_ok, "replace with create_if_missing inserts"); else P(ec != 0 /* KEY_NOT_FOUND today; any error code is a refusal */ && n_ops == 0, "replace of a missing member: key_not_found, nothing modified"); }
    else { if (IN_has_key) P(ec == 0 && n_ops == 1 && op_kind == OP_ERASE_KEY && op_key_ok, "remove erases the member named by the exact token"); else P(ec != 0 /* KEY_NOT_FOUND today; any error code is a refusal */ && n_ops == 0, "remove of a missing member: key_not_found, nothing modified"); }
  } else P(ec != 0 /* EXPECTED_OBJ_OR_ARR today; any error code is a refusal */ && n_ops == 0, "scalar target: expected_object_or_array, nothing modified");
  WIT(ec == 0 && n_ops == 1 && (N == 0 || IN_kind == 1));
}
