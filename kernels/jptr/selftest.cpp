#include "vselftest.h"
extern "C" {
int k_edit1(unsigned, const char*, unsigned long, int); int c_k_edit1(unsigned, const char*, unsigned long, int);
int k_resolve_c(const char*, unsigned long); int c_k_resolve_c(const char*, unsigned long);
int k_resolve_m(const char*, unsigned long, int); int c_k_resolve_m(const char*, unsigned long, int);
unsigned long k_escape(const char*, unsigned long, char*, unsigned long); unsigned long c_k_escape(const char*, unsigned long, char*, unsigned long);
unsigned mj_kind; unsigned long mj_size; unsigned mj_has_key; static unsigned long log_[8]; static int nlog;
void mj_at_index(unsigned long i) { if (nlog < 8) log_[nlog++] = i; }
void mj_at_key(const char* s, unsigned long n) { if (nlog < 8) log_[nlog++] = 1000 + n + (n ? (unsigned char)s[0] * 16 : 0); }
void mj_op(unsigned kind, unsigned long index, const char* key, unsigned long keylen) { if (nlog < 8) log_[nlog++] = 9000 + kind * 100 + index % 100 + keylen; }
void mj_emplace(const char* s, unsigned long n) { if (nlog < 8) log_[nlog++] = 5000 + n + (n ? (unsigned char)s[0] * 16 : 0); }
}
ST_MAIN_BEGIN
  // tokens from the repository's jsonpointer tests ("0","1","-","foo","a~1b","m~0n","01") plus seeded random tokens
  const char* toks[] = {"0", "1", "-", "foo", "01", "10", "", " ", "-1", "+1", "1a", "18446744073709551615", "18446744073709551616", "a/b", "m~n"};
  for (const char* t : toks) for (unsigned k = 0; k < 3; k++) for (unsigned long sz = 0; sz < 12; sz += 5) for (unsigned hk = 0; hk < 2; hk++) {
    mj_kind = k; mj_size = sz; mj_has_key = hk; unsigned long n = strlen(t);
    nlog = 0; int a = k_resolve_c(t, n); unsigned long la[8]; int na = nlog; memcpy(la, log_, sizeof la); nlog = 0; int b = c_k_resolve_c(t, n); ST_CHECK(a == b && na == nlog && !memcmp(la, log_, na * sizeof(long)));
    for (int cr = 0; cr < 2; cr++) { nlog = 0; a = k_resolve_m(t, n, cr); na = nlog; memcpy(la, log_, sizeof la); nlog = 0; b = c_k_resolve_m(t, n, cr); ST_CHECK(a == b && na == nlog && !memcmp(la, log_, na * sizeof(long))); }
    for (unsigned w = 0; w < 4; w++) for (int cr = 0; cr < 2; cr++) { unsigned long sz0 = mj_size; nlog = 0; a = k_edit1(w, t, n, cr); na = nlog; memcpy(la, log_, sizeof la); mj_size = sz0; nlog = 0; b = c_k_edit1(w, t, n, cr); mj_size = sz0; ST_CHECK(a == b && na == nlog && !memcmp(la, log_, na * sizeof(long))); }
    char o1[64] = {0}, o2[64] = {0}; ST_CHECK(k_escape(t, n, o1, 64) == c_k_escape(t, n, o2, 64) && !memcmp(o1, o2, 64)); }
  for (int it = 0; it < 100000; it++) { char t[8]; unsigned long n = st_rand() % 8; for (unsigned long i = 0; i < n; i++) t[i] = st_rand() % 4 ? '0' + st_rand() % 10 : "-~/a+ "[st_rand() % 6];
    mj_kind = st_rand() % 3; mj_size = st_rand() % 200; mj_has_key = st_rand() % 2; int cr = st_rand() % 2;
    nlog = 0; int a = k_resolve_m(t, n, cr); unsigned long la[8]; int na = nlog; memcpy(la, log_, sizeof la); nlog = 0; int b = c_k_resolve_m(t, n, cr); ST_CHECK(a == b && na == nlog && !memcmp(la, log_, na * sizeof(long)));
    char o1[64] = {0}, o2[64] = {0}; ST_CHECK(k_escape(t, n, o1, 64) == c_k_escape(t, n, o2, 64) && !memcmp(o1, o2, 64)); }
ST_MAIN_END
