#include "vselftest.h"
struct rec_ev { unsigned kind; unsigned tag; unsigned long long bits; unsigned long long len; unsigned char str[8]; unsigned ext; };
extern "C" {
#define BOTH(ret, name, ...) ret name(__VA_ARGS__); ret c_##name(__VA_ARGS__);
BOTH(int, k_cbor_item, const unsigned char*, unsigned long, rec_ev*, unsigned, unsigned*, unsigned long*, int*)
BOTH(unsigned long, k_cbor_enc_u64, unsigned long, unsigned, unsigned char*, unsigned long)
BOTH(unsigned long, k_cbor_enc_i64, long, unsigned, unsigned char*, unsigned long)
BOTH(unsigned long, k_cbor_enc_double, double, unsigned, unsigned char*, unsigned long)
BOTH(unsigned long, k_cbor_enc_bool, int, unsigned, unsigned char*, unsigned long)
BOTH(unsigned long, k_cbor_enc_null, int, unsigned, unsigned char*, unsigned long)
BOTH(unsigned long, k_cbor_enc_half, unsigned, unsigned, unsigned char*, unsigned long)
BOTH(unsigned long, k_cbor_head, unsigned, unsigned long, unsigned char*, unsigned long)
BOTH(unsigned long, k_cbor_min_stringref, unsigned long)
}
static void item(const unsigned char* s, unsigned long n) {
  rec_ev a[2], b[2]; memset(a, 0, sizeof a); memset(b, 0, sizeof b); unsigned na = 0, nb = 0; unsigned long ca = 0, cb = 0; int ma = 0, mb = 0; int ra = 0, rb = 0;
  int ta = ST_TRY(ra = k_cbor_item(s, n, a, 2, &na, &ca, &ma)); int tb = ST_TRY(rb = c_k_cbor_item(s, n, b, 2, &nb, &cb, &mb));
  ST_CHECK(ta == tb && (ta || (ra == rb && na == nb && ca == cb && ma == mb && (na == 0 || (a[0].kind == b[0].kind && a[0].tag == b[0].tag && a[0].bits == b[0].bits && a[0].len == b[0].len && !memcmp(a[0].str, b[0].str, 8))))));
}
ST_MAIN_BEGIN
  // RFC 8949 appendix A examples used by the repository's cbor tests (scalars, short strings) plus seeded random scalar-ish items
  const char* fx[] = {"\x00", "\x17", "\x18\x18", "\x19\x03\xe8", "\x1a\x00\x0f\x42\x40", "\x1b\x00\x00\x00\xe8\xd4\xa5\x10\x00", "\x1b\xff\xff\xff\xff\xff\xff\xff\xff", "\x20", "\x38\x63", "\x39\x03\xe7", "\x3b\xff\xff\xff\xff\xff\xff\xff\xff",
    "\xf9\x3c\x00", "\xfa\x47\xc3\x50\x00", "\xfb\x3f\xf1\x99\x99\x99\x99\x99\x9a", "\xf4", "\xf5", "\xf6", "\xf7", "\xf0", "\xf8\xff", "\x1c", "\x3f", "\xff", "\xc1\x1a\x51\x4b\x67\xb0", "\x60", "\x61\x61", "\x64\x49\x45\x54\x46", "\x40", "\x44\x01\x02\x03\x04"};
  unsigned long fl[] = {1,1,2,3,5,9,9,1,2,3,9,3,5,9,1,1,1,1,1,2,1,1,1,6,1,2,5,1,5};
  for (unsigned i = 0; i < sizeof(fl) / sizeof(fl[0]); i++) item((const unsigned char*)fx[i], fl[i]);
  for (int it = 0; it < 100000; it++) {
    unsigned char s[12]; unsigned long n = 1 + st_rand() % 10; for (unsigned long i = 0; i < n; i++) s[i] = (unsigned char)st_rand();
    int r = st_rand() % 4; unsigned char maj = r == 0 ? 0 : r == 1 ? 1 : r == 2 ? 7 : (st_rand() % 2 ? 2 : 3);
    s[0] = (unsigned char)((maj << 5) | (s[0] & 0x1f)); if (maj == 2 || maj == 3) { s[0] = (unsigned char)((maj << 5) | (st_rand() % 4)); for (unsigned long i = 1; i < n; i++) s[i] &= 0x7f; }
    item(s, n);
    unsigned long v = st_rand() >> (st_rand() % 64); unsigned char b1[16] = {0}, b2[16] = {0};
    ST_CHECK(k_cbor_enc_u64(v, 0, b1, 16) == c_k_cbor_enc_u64(v, 0, b2, 16) && !memcmp(b1, b2, 16));
    ST_CHECK(k_cbor_enc_i64((long)v, 0, b1, 16) == c_k_cbor_enc_i64((long)v, 0, b2, 16) && !memcmp(b1, b2, 16));
    ST_CHECK(k_cbor_enc_i64(-(long)v, 5, b1, 16) == c_k_cbor_enc_i64(-(long)v, 5, b2, 16) && !memcmp(b1, b2, 16));
    double d; unsigned long bits = st_rand() % 3 ? st_rand() : (unsigned long)(st_rand() % 4096) << 52; memcpy(&d, &bits, 8); if (st_rand() % 3 == 0) d = (float)d;
    ST_CHECK(k_cbor_enc_double(d, 0, b1, 16) == c_k_cbor_enc_double(d, 0, b2, 16) && !memcmp(b1, b2, 16));
    ST_CHECK(k_cbor_enc_bool(v & 1, 0, b1, 16) == c_k_cbor_enc_bool(v & 1, 0, b2, 16) && !memcmp(b1, b2, 16));
    ST_CHECK(k_cbor_enc_null(0, 0, b1, 16) == c_k_cbor_enc_null(0, 0, b2, 16) && !memcmp(b1, b2, 16));
    ST_CHECK(k_cbor_enc_half(v & 0xffff, 0, b1, 16) == c_k_cbor_enc_half(v & 0xffff, 0, b2, 16) && !memcmp(b1, b2, 16));
    ST_CHECK(k_cbor_head((unsigned)((v & 7) << 5), v >> 3, b1, 16) == c_k_cbor_head((unsigned)((v & 7) << 5), v >> 3, b2, 16) && !memcmp(b1, b2, 16));
    ST_CHECK(k_cbor_min_stringref(v) == c_k_cbor_min_stringref(v));
  }
ST_MAIN_END
