// kernel "cbor": the REAL basic_cbor_parser<bytes_source>::read_item (scalars, heads, tags) and basic_cbor_encoder<Sink> scalar writers
#include "vshim.h"
#include <jsoncons_ext/cbor/cbor_parser.hpp>
#include <jsoncons_ext/cbor/cbor_encoder.hpp>
#include "../recvis.h"
using namespace jsoncons;
using parser_t = cbor::basic_cbor_parser<bytes_source>;
using encoder_t = cbor::basic_cbor_encoder<bsink>;
// parser built as raw zero state (DESIGN 2.1): only the members the kernel touches are initialised
KFN int k_cbor_item(const unsigned char* s, unsigned long n, rec_ev* ev, unsigned cap, unsigned* nev, unsigned long* consumed, int* more) {
    RAWOBJ(parser_t, p);
    new (&p->source_) bytes_source(jsoncons::span<const uint8_t>(s, n));
    p->more_ = true; p->max_nesting_depth_ = 1024;
    recvis v(ev, cap);
    std::error_code ec;
    p->read_item(v, ec);
    *nev = v.n; *consumed = p->source_.position(); *more = p->more_;
    return ec ? ec.value() : 0;
}
static encoder_t* mkenc(void* raw, unsigned char* buf, unsigned long cap) {
    // the encoder is built by its REAL constructor (default options); it makes virtual calls on itself (visit_int64 -> visit_double), so it needs its vptr
    return new (raw) encoder_t(bsink{buf, 0, cap});
}
#define ENC(NAME, T, CALL) KFN unsigned long NAME(T v, unsigned tag, unsigned char* buf, unsigned long cap) { RAWCTOR(encoder_t, raw); encoder_t* e = mkenc(raw, buf, cap); std::error_code ec; ser_context ctx; e->encoder_t::CALL; return e->sink_.n; }
ENC(k_cbor_enc_u64, unsigned long, visit_uint64(v, (semantic_tag)tag, ctx, ec))
ENC(k_cbor_enc_i64, long, visit_int64(v, (semantic_tag)tag, ctx, ec))
ENC(k_cbor_enc_double, double, visit_double(v, (semantic_tag)tag, ctx, ec))
ENC(k_cbor_enc_bool, int, visit_bool(v != 0, (semantic_tag)tag, ctx, ec))
ENC(k_cbor_enc_null, int, visit_null((semantic_tag)tag, ctx, ec))
ENC(k_cbor_enc_half, unsigned, visit_half((uint16_t)v, (semantic_tag)tag, ctx, ec))
KFN unsigned long k_cbor_head(unsigned major, unsigned long len, unsigned char* buf, unsigned long cap) { RAWCTOR(encoder_t, raw); encoder_t* e = mkenc(raw, buf, cap); e->write_type_and_length((uint8_t)major, len); return e->sink_.n; }
KFN unsigned long k_cbor_min_stringref(unsigned long index) { return cbor::detail::min_length_for_stringref(index); }
// stringref (tag 25) resolution: the parser is parked with a stringref namespace holding K text strings "s0","s1",.. and a pending tag 25
KFN int k_cbor_stringref(unsigned K, const unsigned char* s, unsigned long n, rec_ev* ev, unsigned cap, unsigned* nev, unsigned long* consumed) {
    RAWOBJ(parser_t, p);
    new (&p->source_) bytes_source(jsoncons::span<const uint8_t>(s, n));
    p->more_ = true; p->max_nesting_depth_ = 1024;
    new (&p->stringref_map_stack_) decltype(p->stringref_map_stack_)(); p->stringref_map_stack_.reserve(2); p->stringref_map_stack_.emplace_back();
    p->stringref_map_stack_.back().reserve(4);
    for (unsigned k = 0; k < K && k < 3; ++k) { char t[2] = {'s', (char)('0' + k)}; p->stringref_map_stack_.back().emplace_back(jsoncons::string_view(t, 2)); }
    p->other_tags_[parser_t::stringref_tag] = true;
    recvis v(ev, cap); std::error_code ec;
    p->read_item(v, ec);
    *nev = v.n; *consumed = p->source_.position();
    return ec ? ec.value() : 0;
}
// the extents check of multi-dimensional typed arrays (CBOR tags 40/1040): the number of elements the extents claim, from input bytes
#include <jsoncons/typed_array.hpp>
KFN int k_mdsize(const unsigned long* ext, unsigned long n, unsigned long* out) {
    auto r = jsoncons::calculate_mdarray_size(jsoncons::span<const std::size_t>(ext, n));
    if (!r) return 0;
    *out = *r; return 1;
}
