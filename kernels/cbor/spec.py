"""kernel cbor: the REAL basic_cbor_parser<bytes_source>::read_item (built as raw state) and basic_cbor_encoder<Sink> scalar writers.
Serves C07 (K7.1), C06 (K6.1, K6.4), C05."""
ASSUMPTIONS = [
    'cbor/h_item_scalar: the major type of the first byte is concrete per job (0, 1, 7); additional information and all following bytes are symbolic; input length concrete per job (1..9)',
    'cbor/*: parser/encoder objects are raw zeroed storage with only source_/sink_, more_, max_nesting_depth_ initialised (no tags pending, empty stringref/state stacks) - i.e. a top-level item with default options',
]
STUB_NOTES = ['recording visitor (kernels/recvis.h) instead of json_decoder', 'bsink fixed-array Sink', 'operator new/delete, __cxa_guard_*, system_category modelled in generated C (irc RUNTIME_MODELS)',
              'std::string members, ldexp, nan: not modelled - unreachable for majors 0/1/7 (a reachable call would fail as "no body")']

TRAP = r'_M_realloc_insert'
def jobs(tier):
    J = []
    def add(id, harness, props, unwind, defs, timeout, desc, bound, **kw):
        J.append(dict(id=id, harness=harness, props=props, unwind=unwind, defs=defs, timeout=timeout, desc=desc, bound=bound, **kw))
    for major in (0, 1, 7):
        for n in (1, 2, 3, 5, 9) if tier == 'quick' else (1, 2, 3, 4, 5, 6, 8, 9):
            add('item_m%d_n%d' % (major, n), 'h_item_scalar', ['C07'], 10, dict(MAJOR=major, N=n, WINFO=(27 if n >= 9 else 26 if n >= 5 else 25 if n >= 3 else (20 if major == 7 else 24 if n >= 2 else 0))), 900, 'read_item vs RFC 8949 reference decoder: value, kind, consumed bytes; reserved info 28-30 / 31 and truncation rejected; no wrapped negative', 'major %d, every additional-information value, every following byte, input length %d' % (major, n))
    if tier == 'thorough':   # encoder o full parser in one harness: > 15 min per job (the composition encoder->reference decoder (enc kernel) + parser==reference decoder (item_* jobs) carries the quick tier)
     add('rt_u64', 'h_rt_u64', ['C06'], 10, {}, 900, 'decode(encode(uint64)) == value, shortest head', 'all 2^64 values')
     add('rt_i64', 'h_rt_i64', ['C06'], 10, {}, 900, 'decode(encode(int64)) == value, shortest head', 'all 2^64 values')
     add('rt_double', 'h_rt_double', ['C06'], 10, {}, 900, 'decode(encode(double)) bit for bit (NaN as NaN), float32 chosen only when exact', 'all 2^64 bit patterns')
     add('rt_simple', 'h_rt_simple', ['C06'], 10, {}, 300, 'bool/null round trip', 'false,true,null')
     add('rt_half', 'h_rt_half', ['C06'], 10, {}, 300, 'half round trip bit for bit', 'all 65536 patterns')
    add('head', 'h_head', ['C06', 'C08'], 10, {}, 600, 'write_type_and_length: well-formed, denotes (major,length), shortest', 'all majors x all 2^64 lengths')
    add('min_stringref', 'h_min_stringref', ['C06'], 4, {}, 300, 'min_length_for_stringref == stringref spec table', 'all 2^64 indices')
    for k in (0, 1, 2):
        add('stringref_k%d' % k, 'h_stringref', ['C05', 'C07'], 10, dict(KREF=k, N=2), 600, 'tag 25 string reference: index < registered strings resolves to that string, otherwise stringref_too_large; no std::out_of_range', '%d registered strings, indices 0,1,2,3,23' % k, mem_gb=6)
    for n in (0, 1, 2, 3):   # n >= 2: the exact-product oracle is a 64x64 multiply/divide equivalence (no verdict in 10 min on any back end, also with 8-bit later extents): safety assertions only
        add('mdsize_n%d' % n, 'h_mdsize', ['C05'], 6, dict(NEXT=n, **(dict(SAFETY_ONLY=1) if n >= 2 else {})), 600, 'calculate_mdarray_size (extents of CBOR tag 40/1040 arrays, from input bytes): no division by zero, no overflow trap, terminates' + ('; an accepted size is the exact product' if n < 2 else '') + ' [safety mode]', 'any %d uint64 extents' % n, safety=True)
    return J
