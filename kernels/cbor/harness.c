/* harnesses for kernel "cbor" (C07 K7.1 scalar items vs RFC 8949; C06 K6.1 encoder o decoder round trip, shortest heads; K6.4 stringref threshold) */
#include "kernel.c"
#include "vharness.h"
#define NEED_THROWS
#include "vmodels.h"
#ifndef N
#define N 9
#endif
#ifndef WINFO
#define WINFO 0
#endif
#ifndef MAJOR
#define MAJOR 0
#endif
INPUT_ARR(u8, IN_s, N) INPUT(u64, IN_v) INPUT(u32, IN_tag) INPUT(u64, IN_len) INPUT(u32, IN_major) INPUT(u32, IN_info)
enum { EV_NONE = 0, EV_BEGIN_OBJECT, EV_END_OBJECT, EV_BEGIN_ARRAY, EV_END_ARRAY, EV_KEY, EV_NULL, EV_BOOL, EV_STRING, EV_BYTES, EV_UINT, EV_INT, EV_HALF, EV_DOUBLE, EV_BEGIN_OBJECT_LEN, EV_BEGIN_ARRAY_LEN, EV_BYTES_EXT };
#define TAG_NONE 0
#define TAG_UNDEFINED 13

/* RFC 8949 section 3 head decoder, written from the RFC: returns total head length (1,2,3,5,9), 0 if the additional information is reserved (28..30)
   or indefinite (31), -1 if truncated */
static int ref_head(const u8* s, u64 n, u8* major, u8* info, u64* arg) {
  if (n < 1) return -1;
  *major = s[0] >> 5; *info = s[0] & 0x1f; *arg = 0;
  if (*info < 24) { *arg = *info; return 1; }
  if (*info >= 28) return 0;
  int k = 1 << (*info - 24);
  if (n < (u64)1 + k) return -1;
  u64 a = 0; for (int i = 0; i < 8; i++) if (i < k) a = (a << 8) | s[1 + i];
  *arg = a; return 1 + k;
}
static u64 f32_to_f64_bits(u32 f) { return irc_d2bits((double)irc_bits2f(f)); }

/* The first byte reaches the parser as a CONSTANT (one call site per additional-information value): symbolic execution then follows
   exactly one arm of read_item's switches instead of dragging the string/array/bigfloat machinery along infeasible paths. */
static void run_item(u8 first) {
  IN_s[0] = first;
  u8* s = malloc(N); ASSUME(s != 0); memcpy(s, IN_s, N); s[0] = first;
  struct S_struct_2erec_ev ev[2]; u32 nev = 0; u64 consumed = 0; u32 more = 0;
  u32 ec = k_cbor_item(s, N, ev, 2, &nev, &consumed, &more);
  u8 major, info; u64 arg; int hl = ref_head(s, N, &major, &info, &arg);
  if (hl <= 0) {
    P(ec != 0, "reserved additional information 28..30, indefinite marker 31 on an integer/simple head, or a truncated head is rejected");
    P(nev == 0, "no event is produced for an ill-formed item");
  } else if (major == 0) {
    P(ec == 0 && nev == 1, "unsigned integer accepted, exactly one event");
    P(ev[0].f0 == EV_UINT && ev[0].f2 == arg && ev[0].f1 == TAG_NONE, "uint64 event carries the RFC 8949 value");
    P(consumed == (u64)hl, "consumes exactly the head");
  } else if (major == 1) {
    if (arg <= 0x7fffffffffffffffULL) {
      P(ec == 0 && nev == 1, "negative integer accepted, exactly one event");
      P(ev[0].f0 == EV_INT && ev[0].f2 == (u64)(-1 - (s64)arg) && ev[0].f1 == TAG_NONE, "int64 event carries -1-n");
      P(consumed == (u64)hl, "consumes exactly the head");
    } else {
      /* -1-n < -2^63 does not fit int64: it must not surface as an int64/uint64 value (error, or a non-integer representation) */
      P(!(ec == 0 && nev >= 1 && (ev[0].f0 == EV_INT || ev[0].f0 == EV_UINT)), "negative integer below -2^63 is never delivered as a (wrapped) 64-bit integer");
    }
  } else if (major == 7) {
    if (info == 20 || info == 21) { P(ec == 0 && nev == 1 && ev[0].f0 == EV_BOOL && ev[0].f2 == (u64)(info == 21), "false/true"); P(consumed == 1, "consumes 1 byte"); }
    else if (info == 22) { P(ec == 0 && nev == 1 && ev[0].f0 == EV_NULL && ev[0].f1 == TAG_NONE, "null"); P(consumed == 1, "consumes 1 byte"); }
    else if (info == 23) { P(ec == 0 && nev == 1 && ev[0].f0 == EV_NULL && ev[0].f1 == TAG_UNDEFINED, "undefined"); P(consumed == 1, "consumes 1 byte"); }
    else if (info == 25) { P(ec == 0 && nev == 1 && ev[0].f0 == EV_HALF && ev[0].f2 == arg, "half-precision float delivered bit for bit"); P(consumed == 3, "consumes 3 bytes"); }
    else if (info == 26) { P(ec == 0 && nev == 1 && ev[0].f0 == EV_DOUBLE, "float32 accepted");
      u64 want = f32_to_f64_bits((u32)arg); int isnan = ((arg & 0x7f800000ULL) == 0x7f800000ULL) && (arg & 0x7fffffULL);
      if (isnan) P((ev[0].f2 & 0x7ff0000000000000ULL) == 0x7ff0000000000000ULL && (ev[0].f2 & 0xfffffffffffffULL), "NaN stays a NaN"); else P(ev[0].f2 == want, "float32 value widened exactly");
      P(consumed == 5, "consumes 5 bytes"); }
    else if (info == 27) { P(ec == 0 && nev == 1 && ev[0].f0 == EV_DOUBLE && ev[0].f2 == arg, "float64 delivered bit for bit"); P(consumed == 9, "consumes 9 bytes"); }
    else { P(ec != 0 && nev == 0, "unassigned simple values are not decoded to some JSON value"); }
  }
  WIT(ec == 0 && nev == 1 && IN_info >= WINFO);
}
#define CI(i) else if (IN_info == i) run_item((u8)((MAJOR << 5) | i));
HARNESS(h_item_scalar) {
  HAVOC_ARR(IN_s, N); HAVOC(IN_info); ASSUME(IN_info < 32);
  if (0) {} CI(0) CI(1) CI(2) CI(3) CI(4) CI(5) CI(6) CI(7) CI(8) CI(9) CI(10) CI(11) CI(12) CI(13) CI(14) CI(15) CI(16) CI(17) CI(18) CI(19) CI(20) CI(21) CI(22) CI(23)
  CI(24) CI(25) CI(26) CI(27) CI(28) CI(29) CI(30) CI(31)
}
/* encoder o decoder round trip for scalars (C06 K6.1): the real encoder's bytes are fed to the real decoder */
static u32 dec1(u8* buf, u64 n, struct S_struct_2erec_ev* ev, u64* consumed) { u32 nev = 0; u32 more = 0; u32 ec = k_cbor_item(buf, n, ev, 2, &nev, consumed, &more); P(ec == 0 && nev == 1, "decoder accepts what the encoder wrote, one event"); return ec == 0 && nev == 1; }
static u64 minhead(u64 a) { return a < 24 ? 1 : a <= 0xff ? 2 : a <= 0xffff ? 3 : a <= 0xffffffffULL ? 5 : 9; }
HARNESS(h_rt_u64) {
  HAVOC(IN_v); u8 buf[16]; u64 n = k_cbor_enc_u64(IN_v, 0, buf, 16); ASSUME(n <= 16);
  struct S_struct_2erec_ev ev[2]; u64 c = 0;
  if (dec1(buf, n, ev, &c)) { P(ev[0].f0 == EV_UINT && ev[0].f2 == IN_v && ev[0].f1 == TAG_NONE, "uint64 round trip"); P(c == n, "all bytes consumed"); }
  P(n == minhead(IN_v), "preferred (shortest) serialisation of the head");
  WIT(n == 9);
}
HARNESS(h_rt_i64) {
  HAVOC(IN_v); u8 buf[16]; u64 n = k_cbor_enc_i64((s64)IN_v, 0, buf, 16); ASSUME(n <= 16);
  struct S_struct_2erec_ev ev[2]; u64 c = 0;
  if (dec1(buf, n, ev, &c)) { P(((s64)IN_v >= 0 ? ev[0].f0 == EV_UINT : ev[0].f0 == EV_INT) && ev[0].f2 == IN_v, "int64 round trip (same mathematical value)"); P(c == n, "all bytes consumed"); }
  P(n == minhead((s64)IN_v >= 0 ? IN_v : (u64)(-1 - (s64)IN_v)), "preferred (shortest) serialisation of the head");
  WIT(n == 9 && (s64)IN_v < 0);
}
HARNESS(h_rt_double) {
  HAVOC(IN_v); u8 buf[16]; u64 n = k_cbor_enc_double(irc_bits2d(IN_v), 0, buf, 16); ASSUME(n <= 16);
  struct S_struct_2erec_ev ev[2]; u64 c = 0;
  int isnan = ((IN_v & 0x7ff0000000000000ULL) == 0x7ff0000000000000ULL) && (IN_v & 0xfffffffffffffULL);
  if (dec1(buf, n, ev, &c)) { P(ev[0].f0 == EV_DOUBLE, "double event");
    if (isnan) P((ev[0].f2 & 0x7ff0000000000000ULL) == 0x7ff0000000000000ULL && (ev[0].f2 & 0xfffffffffffffULL), "NaN round-trips as a NaN"); else P(ev[0].f2 == IN_v, "double round trip bit for bit");
    P(c == n, "all bytes consumed"); }
  P(n == 5 || n == 9, "float32 or float64 form");
  WIT(n == 5 && !isnan && IN_v != 0);
}
HARNESS(h_rt_simple) {
  HAVOC(IN_v); ASSUME(IN_v <= 2); u8 buf[8]; u64 n = IN_v == 2 ? k_cbor_enc_null(0, 0, buf, 8) : k_cbor_enc_bool((u32)IN_v, 0, buf, 8); ASSUME(n <= 8);
  struct S_struct_2erec_ev ev[2]; u64 c = 0;
  if (dec1(buf, n, ev, &c)) { if (IN_v == 2) P(ev[0].f0 == EV_NULL && ev[0].f1 == TAG_NONE, "null round trip"); else P(ev[0].f0 == EV_BOOL && ev[0].f2 == IN_v, "bool round trip"); }
  P(n == 1, "one byte");
  WIT(n == 1 && IN_v == 2);
}
HARNESS(h_rt_half) {
  HAVOC(IN_v); ASSUME(IN_v <= 0xffff); u8 buf[8]; u64 n = k_cbor_enc_half((u32)IN_v, 0, buf, 8); ASSUME(n <= 8);
  struct S_struct_2erec_ev ev[2]; u64 c = 0;
  if (dec1(buf, n, ev, &c)) P(ev[0].f0 == EV_HALF && ev[0].f2 == IN_v, "half round trip bit for bit");
  P(n == 3, "three bytes");
  WIT(n == 3);
}
/* every head the encoder writes for (major, length) decodes (by the RFC reference) to the same major/argument and is the shortest form */
HARNESS(h_head) {
  HAVOC(IN_len); HAVOC(IN_major); ASSUME(IN_major <= 7);
  u8 buf[16]; u64 n = k_cbor_head(IN_major << 5, IN_len, buf, 16); ASSUME(n <= 16);
  u8 major, info; u64 arg; int hl = ref_head(buf, n, &major, &info, &arg);
  P(hl > 0 && (u64)hl == n, "well-formed head, nothing after it"); P(major == IN_major && arg == IN_len, "head denotes (major, length)"); P(n == minhead(IN_len), "shortest form");
  WIT(n == 5);
}
/* stringref: http://cbor.schmorp.de/stringref  -- minimum string length that gets a reference, by next index */
HARNESS(h_min_stringref) {
  HAVOC(IN_v);
  u64 r = k_cbor_min_stringref(IN_v);
  u64 want = IN_v <= 23 ? 3 : IN_v <= 255 ? 4 : IN_v <= 65535 ? 5 : IN_v <= 4294967295ULL ? 7 : 11;
  P(r == want, "min_length_for_stringref matches the stringref specification table");
  WIT(r == 7);
}

/* ---------------- C05 / C07: a string reference (tag 25) resolves to the registered string or is rejected with stringref_too_large - never an out-of-range access ---------------- */
#ifndef KREF
#define KREF 1
#endif
static void run_ref(u8 first) {
  u8* s = malloc(N); ASSUME(s != 0); memcpy(s, IN_s, N); s[0] = first;   /* the head byte is a CONSTANT per call site (read_item's dispatch folds) */
  struct S_struct_2erec_ev ev[2]; memset(ev, 0, sizeof ev); u32 nev = 0; u64 consumed = 0;
  IRC_THROW_ALLOWED = 0;
  u32 ec = k_cbor_stringref(KREF, s, N, ev, 2, &nev, &consumed);
  if (first >= KREF) P(ec != 0 && nev == 0, "an index that is not smaller than the number of registered strings is rejected (stringref_too_large), no foreign exception");
  else P(ec == 0 && nev == 1 && ev[0].f0 == EV_STRING && ev[0].f3 == 2 && ev[0].f4.a[0] == 's' && ev[0].f4.a[1] == '0' + first, "the reference resolves to exactly the registered string");
  WIT(ec == 0 && nev == 1); WIT(ec != 0);
}
#define CR(i) else if (IN_info == i) run_ref((u8)i);
HARNESS(h_stringref) {
  HAVOC_ARR(IN_s, N); HAVOC(IN_info);
  if (0) {} CR(0) CR(1) CR(2) CR(3) CR(23)
}

/* calculate_mdarray_size: extents come straight from input bytes.  No division by zero / overflow (safety mode), and an accepted size is the exact product. */
#ifndef NEXT
#define NEXT 2
#endif
INPUT_ARR(u64, IN_ext, 4)
HARNESS(h_mdsize) {
  HAVOC_ARR(IN_ext, 4);
  u64* e = malloc(8 * (NEXT ? NEXT : 1)); ASSUME(e != 0); for (int i = 0; i < NEXT; i++) e[i] = IN_ext[i];
#ifdef EXTMAX
  for (int i = 1; i < NEXT; i++) ASSUME(e[i] <= EXTMAX);   /* exact-product jobs: later extents in a stated window (64x64 multiply/divide equivalence on the full domain gives no verdict) */
#endif
  u64 out = 0; int ok = k_mdsize(e, NEXT, &out);
#ifdef SAFETY_ONLY
  /* full domain: only the safety-mode assertions (division by zero, overflow traps, bounds) and termination are checked */
  WIT(ok && out > 1000 && e[0] > 1); return;
#endif
  /* reference: exact product in 128 bits, step by step (each partial product must fit 64 bits) */
  u128 p = NEXT ? e[0] : 0; int fits = 1;
  for (int i = 1; i < NEXT; i++) { if (e[i] != 0 && p > (u128)0xffffffffffffffffULL / e[i]) fits = 0; if (fits) p = p * e[i]; }
  if (ok) P(fits && (u128)out == p, "an accepted extents list denotes exactly the product of the extents (no wrap-around)");
  if (!fits) P(!ok, "a product that does not fit size_t is refused");
  WIT(NEXT < 2 ? ok : (ok && out > 1000 && e[0] > 1));
}
