/* harnesses for kernel "bdec" (C07 K7.2 MessagePack, K7.3 UBJSON): read_item on one scalar / short string item vs reference decoders written from the specifications */
#include "kernel.c"
#include "vharness.h"
#define NEED_THROWS
#define NEED_STRING_NOGROW
#include "vmodels.h"
#ifndef N
#define N 9
#endif
INPUT_ARR(u8, IN_s, N) INPUT(u32, IN_t)
enum { EV_NONE = 0, EV_BEGIN_OBJECT, EV_END_OBJECT, EV_BEGIN_ARRAY, EV_END_ARRAY, EV_KEY, EV_NULL, EV_BOOL, EV_STRING, EV_BYTES, EV_UINT, EV_INT, EV_HALF, EV_DOUBLE };
enum { J_NONE = 0, J_BEGIN_OBJECT, J_END_OBJECT, J_BEGIN_ARRAY, J_END_ARRAY, J_KEY, J_NULL, J_BOOL, J_STRING, J_UINT, J_INT, J_DOUBLE, J_HALF, J_BYTES };
static u64 be(const u8* p, unsigned w) { u64 a = 0; for (unsigned i = 0; i < 8; i++) if (i < w) a = (a << 8) | p[i]; return a; }
static u64 f32_to_f64_bits(u32 f) { return irc_d2bits((double)irc_bits2f(f)); }
static int f32_isnan(u32 f) { return ((f & 0x7f800000u) == 0x7f800000u) && (f & 0x7fffffu); }
static int isnan64(u64 b) { return ((b & 0x7ff0000000000000ULL) == 0x7ff0000000000000ULL) && (b & 0xfffffffffffffULL); }
/* structural UTF-8 check of a whole short string (RFC 3629), independent of the library */
static int utf8_ok(const u8* s, unsigned n) { unsigned i = 0; for (int k = 0; k < 4; k++) { if (i >= n) break; u8 c = s[i];
    if (c < 0x80) { i += 1; } else if (c >= 0xc2 && c <= 0xdf) { if (i + 1 >= n || (s[i+1] & 0xc0) != 0x80) return 0; i += 2; }
    else if (c >= 0xe0 && c <= 0xef) { if (i + 2 >= n || (s[i+1] & 0xc0) != 0x80 || (s[i+2] & 0xc0) != 0x80) return 0; if (c == 0xe0 && s[i+1] < 0xa0) return 0; if (c == 0xed && s[i+1] > 0x9f) return 0; i += 3; }
    else return 0; /* 4-byte forms cannot fit <= 3 bytes */ } return i == n; }
#ifndef FAM
#define FAM 0
#endif
/* MessagePack families: 0 posfixint, 1 negfixint, 2 nil/never-used/false/true (c0..c3), 3 uint8..64 (cc..cf), 4 int8..64 (d0..d3), 5 float32/64 (ca,cb), 6 fixstr len 0..3 (a0..a3) */
static void run_msgpack(u8 first) {
  u8* s = malloc(N); ASSUME(s != 0); for (int i = 0; i < N; i++) s[i] = IN_s[i]; s[0] = first;   /* the type byte reaches the parser as a CONSTANT (one call site per value): read_item's dispatch folds */
  struct S_struct_2erec_ev ev[2]; memset(ev, 0, sizeof ev); u32 nev = 0; u64 consumed = 0; u32 more = 0; IRC_THROW_ALLOWED = 0;
  u32 ec = k_msgpack_item(s, N, ev, 2, &nev, &consumed, &more);
  u8 t = s[0]; unsigned w;
  if (t <= 0x7f) { P(ec == 0 && nev == 1 && ev[0].f0 == EV_UINT && ev[0].f2 == t && consumed == 1, "positive fixint"); }
  else if (t >= 0xe0) { P(ec == 0 && nev == 1 && ev[0].f0 == EV_INT && ev[0].f2 == (u64)(s64)(s8)t && consumed == 1, "negative fixint"); }
  else if (t == 0xc0) { P(ec == 0 && nev == 1 && ev[0].f0 == EV_NULL && consumed == 1, "nil"); }
  else if (t == 0xc1) { P(ec != 0 && nev == 0, "0xc1 is never used: rejected"); }
  else if (t == 0xc2 || t == 0xc3) { P(ec == 0 && nev == 1 && ev[0].f0 == EV_BOOL && ev[0].f2 == (u64)(t == 0xc3) && consumed == 1, "false/true"); }
  else if (t >= 0xcc && t <= 0xcf) { w = 1u << (t - 0xcc); if (N < 1 + w) P(ec != 0 && nev == 0, "truncated uint is unexpected_eof"); else P(ec == 0 && nev == 1 && ev[0].f0 == EV_UINT && ev[0].f2 == be(s + 1, w) && consumed == 1 + w, "uint8/16/32/64 big-endian value"); }
  else if (t >= 0xd0 && t <= 0xd3) { w = 1u << (t - 0xd0); if (N < 1 + w) P(ec != 0 && nev == 0, "truncated int is unexpected_eof"); else { u64 a = be(s + 1, w); s64 v = w == 1 ? (s64)(s8)a : w == 2 ? (s64)(s16)a : w == 4 ? (s64)(s32)a : (s64)a;
      P(ec == 0 && nev == 1 && ev[0].f0 == EV_INT && ev[0].f2 == (u64)v && consumed == 1 + w, "int8/16/32/64 big-endian two's complement value"); } }
  else if (t == 0xca) { if (N < 5) P(ec != 0 && nev == 0, "truncated float32"); else { u32 f = (u32)be(s + 1, 4); P(ec == 0 && nev == 1 && ev[0].f0 == EV_DOUBLE && consumed == 5, "float32 accepted"); if (f32_isnan(f)) P(isnan64(ev[0].f2), "NaN stays NaN"); else P(ev[0].f2 == f32_to_f64_bits(f), "float32 widened exactly"); } }
  else if (t == 0xcb) { if (N < 9) P(ec != 0 && nev == 0, "truncated float64"); else P(ec == 0 && nev == 1 && ev[0].f0 == EV_DOUBLE && ev[0].f2 == be(s + 1, 8) && consumed == 9, "float64 bit for bit"); }
  else { unsigned len = t & 0x1f; if (N < 1 + len) P(ec != 0 && nev == 0, "truncated fixstr");
    else if (!utf8_ok(s + 1, len)) P(ec != 0 && nev == 0, "fixstr with invalid UTF-8 is rejected");
    else { P(ec == 0 && nev == 1 && ev[0].f0 == EV_STRING && ev[0].f3 == len && consumed == 1 + len, "fixstr delivered with its length"); for (unsigned i = 0; i < 3; i++) if (i < len) P(ev[0].f4.a[i] == s[1 + i], "string bytes delivered"); } }
  WIT(ec == 0 && nev == 1); WIT(ec != 0 && nev == 0);   /* two outcome classes; short inputs only reach the error class */
}
#define CT(v) else if (IN_t == (v)) run_msgpack((u8)(v));
HARNESS(h_msgpack_item) {
  HAVOC_ARR(IN_s, N); HAVOC(IN_t);
  if (0) {}
#if FAM == 0
  CT(0x00) CT(0x01) CT(0x40) CT(0x7f)
#elif FAM == 1
  CT(0xe0) CT(0xf0) CT(0xff)
#elif FAM == 2
  CT(0xc0) CT(0xc1) CT(0xc2) CT(0xc3)
#elif FAM == 3
  CT(0xcc) CT(0xcd) CT(0xce) CT(0xcf)
#elif FAM == 4
  CT(0xd0) CT(0xd1) CT(0xd2) CT(0xd3)
#elif FAM == 5
  CT(0xca) CT(0xcb)
#else
  CT(0xa0) CT(0xa1) CT(0xa2) CT(0xa3)
#endif
}
/* UBJSON markers: Z N T F i U I l L d D C S H */
#ifndef MK
#define MK 'Z'
#endif
static int ub_len(const u8* s, unsigned avail, s64* v, unsigned* used) {
  unsigned need = s[0] == 'i' || s[0] == 'U' ? 2 : s[0] == 'I' ? 3 : s[0] == 'l' ? 5 : s[0] == 'L' ? 9 : 0;
  if (need == 0) return 2; if (avail < need) return 3;
  switch (s[0]) { case 'i': *v = (s8)s[1]; break; case 'U': *v = s[1]; break; case 'I': *v = (s16)be(s + 1, 2); break; case 'l': *v = (s32)be(s + 1, 4); break; default: *v = (s64)be(s + 1, 8); break; }
  *used = need; return *v < 0 ? 1 : 0;
}
HARNESS(h_ubjson_item) {
  HAVOC_ARR(IN_s, N);
  u8* s = malloc(N); ASSUME(s != 0); for (int i = 0; i < N; i++) s[i] = IN_s[i]; s[0] = MK;
  struct S_struct_2ejev ev[2]; memset(ev, 0, sizeof ev); u32 nev = 0; u64 consumed = 0; u32 more = 0; IRC_THROW_ALLOWED = 0;
  u32 ec = k_ubjson_item(s, N, ev, 2, &nev, &consumed, &more);
  /* jev: f0 kind, f1 tag, f2 len, f3 bits, f4 str */
  if (MK == 'Z') P(ec == 0 && nev == 1 && ev[0].f0 == J_NULL && consumed == 1, "Z is null");
  else if (MK == 'T' || MK == 'F') P(ec == 0 && nev == 1 && ev[0].f0 == J_BOOL && ev[0].f3 == (u64)(MK == 'T') && consumed == 1, "T/F");
  else if (MK == 'U') { if (N < 2) P(ec != 0 && nev == 0, "truncated"); else P(ec == 0 && nev == 1 && ev[0].f0 == J_UINT && ev[0].f3 == s[1] && consumed == 2, "U is uint8"); }
  else if (MK == 'i' || MK == 'I' || MK == 'l' || MK == 'L') { unsigned w = MK == 'i' ? 1 : MK == 'I' ? 2 : MK == 'l' ? 4 : 8;
    if (N < 1 + w) P(ec != 0 && nev == 0, "truncated integer is unexpected_eof"); else { u64 a = be(s + 1, w); s64 v = w == 1 ? (s64)(s8)a : w == 2 ? (s64)(s16)a : w == 4 ? (s64)(s32)a : (s64)a;
      P(ec == 0 && nev == 1 && ev[0].f0 == J_INT && ev[0].f3 == (u64)v && consumed == 1 + w, "i/I/l/L are big-endian signed integers"); } }
  else if (MK == 'd') { if (N < 5) P(ec != 0 && nev == 0, "truncated float32"); else { u32 f = (u32)be(s + 1, 4); P(ec == 0 && nev == 1 && ev[0].f0 == J_DOUBLE && consumed == 5, "float32 accepted"); if (f32_isnan(f)) P(isnan64(ev[0].f3), "NaN stays NaN"); else P(ev[0].f3 == f32_to_f64_bits(f), "float32 widened exactly"); } }
  else if (MK == 'D') { if (N < 9) P(ec != 0 && nev == 0, "truncated float64"); else P(ec == 0 && nev == 1 && ev[0].f0 == J_DOUBLE && ev[0].f3 == be(s + 1, 8) && consumed == 9, "float64 bit for bit"); }
  else if (MK == 'C') { if (N < 2) P(ec != 0 && nev == 0, "truncated char"); else if (s[1] >= 0x80) P(ec != 0 && nev == 0, "C holds one ASCII character (a lone byte >= 0x80 is not UTF-8)"); else P(ec == 0 && nev == 1 && ev[0].f0 == J_STRING && ev[0].f2 == 1 && ev[0].f4.a[0] == s[1] && consumed == 2, "C is a one-character string"); }
  else if (MK == 'S' || MK == 'H') { s64 len = 0; unsigned used = 0; int k = N >= 2 ? ub_len(s + 1, N - 1, &len, &used) : 3;
    if (k != 0) P(ec != 0 && nev == 0, "string with a truncated, negative or non-integer length is rejected");
    else if ((u64)len > 3) { if ((u64)(1 + used) + (u64)len > N) P(ec != 0 && nev == 0, "string longer than the input is unexpected_eof"); }
    else if (1 + used + len > N) P(ec != 0 && nev == 0, "truncated string");
    else if (!utf8_ok(s + 1 + used, (unsigned)len) && MK == 'S') P(ec != 0 && nev == 0, "string with invalid UTF-8 is rejected");
    else if (MK == 'S') { P(ec == 0 && nev == 1 && ev[0].f0 == J_STRING && ev[0].f2 == (u64)len && consumed == (u64)(1 + used + len), "S delivers a string of the declared length (every length width, also non-minimal ones)"); for (unsigned i = 0; i < 3; i++) if ((s64)i < len) P(ev[0].f4.a[i] == s[1 + used + i], "string bytes delivered"); }
    else { if (ec == 0) P(nev == 1 && ev[0].f0 == J_STRING && ev[0].f2 == (u64)len && consumed == (u64)(1 + used + len), "H delivers its text"); } }
  WIT(ec == 0 && nev == 1); WIT(ec != 0 && nev == 0);
}
