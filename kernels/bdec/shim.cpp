// kernel "bdec": the REAL basic_msgpack_parser<bytes_source>::read_item and basic_ubjson_parser<bytes_source>::read_item (raw parser state, as kernel cbor does)
// for scalar items and short strings.  Serves C07 (K7.2, K7.3), C05.
#include "vshim.h"
#include <jsoncons_ext/msgpack/msgpack_parser.hpp>
#include <jsoncons_ext/ubjson/ubjson_parser.hpp>
#include "../recvis.h"
#include "../jrecvis.h"
using namespace jsoncons;
using msgp_t = msgpack::basic_msgpack_parser<bytes_source>;
using ubjp_t = ubjson::basic_ubjson_parser<bytes_source>;
KFN int k_msgpack_item(const unsigned char* s, unsigned long n, rec_ev* ev, unsigned cap, unsigned* nev, unsigned long* consumed, int* more) {
    RAWOBJ(msgp_t, p);
    new (&p->source_) bytes_source(jsoncons::span<const uint8_t>(s, n));
    p->more_ = true; p->max_nesting_depth_ = 1024;
    new (&p->text_buffer_) std::string(); new (&p->bytes_buffer_) std::vector<uint8_t>();
    new (&p->state_stack_) std::vector<msgpack::parse_state>(); p->state_stack_.reserve(4); p->state_stack_.emplace_back(msgpack::parse_mode::root, 0);
    recvis v(ev, cap); std::error_code ec;
    p->read_item(v, ec);
    *nev = v.n; *consumed = p->source_.position(); *more = p->more_;
    return ec ? ec.value() : 0;
}
KFN int k_ubjson_item(const unsigned char* s, unsigned long n, jev* ev, unsigned cap, unsigned* nev, unsigned long* consumed, int* more) {
    RAWOBJ(ubjp_t, p);
    new (&p->source_) bytes_source(jsoncons::span<const uint8_t>(s, n));
    p->more_ = true; p->max_nesting_depth_ = 1024; p->max_items_ = 1000;
    new (&p->text_buffer_) std::string();
    new (&p->state_stack_) std::vector<ubjson::parse_state>(); p->state_stack_.reserve(4); p->state_stack_.emplace_back(ubjson::parse_mode::root, 0);
    jrec v(ev, cap); std::error_code ec;
    p->read_type_and_value(v, ec);
    *nev = v.n; *consumed = p->source_.position(); *more = p->more_;
    return ec ? ec.value() : 0;
}
