"""kernel bdec: REAL basic_msgpack_parser::read_item and basic_ubjson_parser::read_type_and_value (raw parser state) on one scalar / short string item vs
reference decoders written from the MessagePack and UBJSON specifications.  Serves C07 (K7.2, K7.3), C05."""
ASSUMPTIONS = ['bdec/*: the first byte (type / marker) is concrete per job family, all following bytes symbolic, input length concrete per job (truncations included)',
               'bdec: parser objects are raw zeroed storage with source_, more_, limits, empty buffers and a root state entry (a top-level item with default options)']
STUB_NOTES = ['recording visitors', 'std::string reallocation cut with an assertion (strings <= 3 bytes)']
STUBS = ['_ZNSt7__cxx1112basic_stringIcSt11char_traitsIcESaIcEE9_M_mutateEmmPKcm']
TRAP = r'_M_realloc_insert|_M_default_append'
MSG = {0: 'posfixint', 1: 'negfixint', 2: 'nil_c1_bool', 3: 'uint', 4: 'int', 5: 'float', 6: 'fixstr'}
def jobs(tier):
    J = []
    for f, name in MSG.items():
        t = tier == 'thorough'
        for n in ((1, 9) if f in (0, 1, 2) else (1, 2, 3, 5, 9) if f in (3, 4, 5) else ((1, 2, 3, 4) if t else (1,))):   # string payloads go through unicode_traits::validate: ~200 s per job
            J.append(dict(id='msgpack_%s_n%d' % (name, n), harness='h_msgpack_item', props=['C07'], unwind=12, defs=dict(FAM=f, N=n), timeout=1500 if f == 6 else 300, mem_gb=4, desc='msgpack read_item, family %s: value per the MessagePack spec, truncation -> error, 0xc1 rejected' % name, bound='type bytes of the family (fixints: 0x00,0x01,0x40,0x7f / 0xe0,0xf0,0xff; otherwise all), every following byte, input length %d' % n))
    for mk in 'ZTFUiIlLdDCSH':
        t = tier == 'thorough'
        for n in ((1, 2) if mk in 'ZTF' else (1, 2, 3, 5, 9) if mk in 'UiIlLdD' else ((1, 2, 3, 5, 9) if t else (1,)) if mk == 'C' else ((2, 3, 4, 6, 7, 10) if (t or mk == 'H') else (2,))):   # payloads that reach unicode_traits::validate cost 200-500 s per job: thorough tier
            J.append(dict(id='ubjson_%s_n%d' % (mk if mk.isupper() else mk + '_', n), harness='h_ubjson_item', props=['C07'], unwind=12, defs=dict(MK="'%s'" % mk, N=n), timeout=900, mem_gb=4, desc="ubjson read_value '%s': value per the UBJSON spec (lengths of every width), truncation / negative length / bad UTF-8 -> error" % mk, bound='every following byte, input length %d' % n))
    return J
