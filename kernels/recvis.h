// recvis.h - recording visitor shared by binary-format kernels: stores the LAST event and the event count into plain fields
#ifndef RECVIS_H
#define RECVIS_H
#include <jsoncons/generic_visitor.hpp>
struct rec_ev { unsigned kind; unsigned tag; unsigned long long bits; unsigned long long len; unsigned char str[8]; unsigned ext; };
enum { EV_NONE = 0, EV_BEGIN_OBJECT, EV_END_OBJECT, EV_BEGIN_ARRAY, EV_END_ARRAY, EV_KEY, EV_NULL, EV_BOOL, EV_STRING, EV_BYTES, EV_UINT, EV_INT, EV_HALF, EV_DOUBLE, EV_BEGIN_OBJECT_LEN, EV_BEGIN_ARRAY_LEN, EV_BYTES_EXT };
struct recvis final : jsoncons::basic_generic_visitor<char> {
    rec_ev* out; unsigned n; unsigned cap;
    recvis(rec_ev* o, unsigned c) : out(o), n(0), cap(c) {}
    void put(unsigned k, jsoncons::semantic_tag t, unsigned long long b, const void* s = nullptr, unsigned long long l = 0, unsigned ext = 0) {
        if (n < cap) { rec_ev& e = out[n]; e.kind = k; e.tag = (unsigned)t; e.bits = b; e.len = l; e.ext = ext; for (unsigned i = 0; i < 8; ++i) e.str[i] = (s && i < l) ? ((const unsigned char*)s)[i] : 0; }
        n++;
    }
    void visit_flush() override {}
    bool visit_begin_object(jsoncons::semantic_tag t, const jsoncons::ser_context&, std::error_code&) override { put(EV_BEGIN_OBJECT, t, 0); return true; }
    bool visit_begin_object(std::size_t l, jsoncons::semantic_tag t, const jsoncons::ser_context&, std::error_code&) override { put(EV_BEGIN_OBJECT_LEN, t, l); return true; }
    bool visit_end_object(const jsoncons::ser_context&, std::error_code&) override { put(EV_END_OBJECT, jsoncons::semantic_tag::none, 0); return true; }
    bool visit_begin_array(jsoncons::semantic_tag t, const jsoncons::ser_context&, std::error_code&) override { put(EV_BEGIN_ARRAY, t, 0); return true; }
    bool visit_begin_array(std::size_t l, jsoncons::semantic_tag t, const jsoncons::ser_context&, std::error_code&) override { put(EV_BEGIN_ARRAY_LEN, t, l); return true; }
    bool visit_end_array(const jsoncons::ser_context&, std::error_code&) override { put(EV_END_ARRAY, jsoncons::semantic_tag::none, 0); return true; }
    bool visit_null(jsoncons::semantic_tag t, const jsoncons::ser_context&, std::error_code&) override { put(EV_NULL, t, 0); return true; }
    bool visit_bool(bool v, jsoncons::semantic_tag t, const jsoncons::ser_context&, std::error_code&) override { put(EV_BOOL, t, v); return true; }
    bool visit_string(const string_view_type& s, jsoncons::semantic_tag t, const jsoncons::ser_context&, std::error_code&) override { put(EV_STRING, t, 0, s.data(), s.size()); return true; }
    bool visit_byte_string(const jsoncons::byte_string_view& s, jsoncons::semantic_tag t, const jsoncons::ser_context&, std::error_code&) override { put(EV_BYTES, t, 0, s.data(), s.size()); return true; }
    bool visit_byte_string(const jsoncons::byte_string_view& s, uint64_t ext, const jsoncons::ser_context&, std::error_code&) override { put(EV_BYTES_EXT, jsoncons::semantic_tag::none, ext, s.data(), s.size()); return true; }
    bool visit_uint64(uint64_t v, jsoncons::semantic_tag t, const jsoncons::ser_context&, std::error_code&) override { put(EV_UINT, t, v); return true; }
    bool visit_int64(int64_t v, jsoncons::semantic_tag t, const jsoncons::ser_context&, std::error_code&) override { put(EV_INT, t, (unsigned long long)v); return true; }
    bool visit_half(uint16_t v, jsoncons::semantic_tag t, const jsoncons::ser_context&, std::error_code&) override { put(EV_HALF, t, v); return true; }
    bool visit_double(double v, jsoncons::semantic_tag t, const jsoncons::ser_context&, std::error_code&) override { unsigned long long b; __builtin_memcpy(&b, &v, 8); put(EV_DOUBLE, t, b); return true; }
};
#endif
