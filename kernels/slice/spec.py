"""kernel slice: the REAL jsonpath::detail::slice_selector<Json,JsonReference>::select and jmespath slice_projection::evaluate loops,
instantiated with a model Json whose size()/operator[]/at() record the visited indices.  Serves C12 (K12.1), C13 (K13.1), C05 (F3)."""
ASSUMPTIONS = [
    'slice/*: array size <= SZ (5 quick / 8 thorough); start, stop, step range over ALL int64 values and absent/present',
    'slice/*: result_options = none (no path generation), no tail selector / no projected expressions (tail_select -> receiver.add, apply_expressions = identity)',
]
STUB_NOTES = ['model Json (MJ/MJ2): is_array()=true, size()=symbolic N, operator[]/at() record index and assert index < N',
              'operator new -> fresh object, never NULL; __cxa_guard_* trivial; vector::_M_realloc_insert reachable only with result_options::path (not driven)']
STUBS = []

def jobs(tier):
    sz = 8 if tier == 'thorough' else 5
    J = []
    for h, p, d in (('h_jp_slice', ['C12'], 'jsonpath slice_selector::select visits exactly the RFC 9535 slice, in order, every access in bounds'),
                    ('h_jm_slice', ['C13'], 'jmespath slice_projection::evaluate visits exactly the Python-slice elements; step 0 -> error')):
        J.append(dict(id=h[2:], harness=h, props=p, unwind=sz + 3, defs=dict(SZ=sz), timeout=900, desc=d, bound='size <= %d, any int64 start/stop/step' % sz))
        J.append(dict(id=h[2:] + '_safety', harness=h, props=['C05'] + p, unwind=sz + 3, defs=dict(SZ=sz), timeout=900, safety=True, desc=d + ' [safety mode: clang UBSan traps for signed overflow etc.]', bound='size <= %d, any int64 start/stop/step' % sz))
    J.append(dict(id='jp_index', harness='h_jp_index', props=['C12'], unwind=4, defs=dict(SZ=sz), timeout=300, desc='jsonpath index_selector::select: element i, or size+i for negative i, else nothing', bound='any int64 index, any array size'))
    J.append(dict(id='jp_index_safety', harness='h_jp_index', props=['C05', 'C12'], unwind=4, defs=dict(SZ=sz), timeout=300, safety=True, desc='index_selector::select [safety mode: no signed overflow]', bound='any int64 index, any array size'))
    J.append(dict(id='jm_index', harness='h_jm_index', props=['C13'], unwind=4, defs=dict(SZ=sz), timeout=300, desc='jmespath index_selector::evaluate: element i, or size+i for negative i, else null', bound='any int64 index, any array size'))
    J.append(dict(id='jm_index_safety', harness='h_jm_index', props=['C05', 'C13'], unwind=4, defs=dict(SZ=sz), timeout=300, safety=True, desc='jmespath index_selector::evaluate [safety mode: no signed overflow]', bound='any int64 index, any array size'))
    for n in ([1, 2, 3, 4] if tier != 'thorough' else [1, 2, 3, 4, 5, 6]):
        J.append(dict(id='jp_escape_n%d' % n, harness='h_jp_escape', props=['C12'], unwind=n + 8, defs=dict(NE2=n), timeout=300, desc='jsonpath::escape_string (names in normalized paths): un-escaping gives the member name back', bound='all names of length %d' % n))
    return J
