#include "vselftest.h"
#include <vector>
extern "C" {
void k_jp_slice(int, long, int, long, long, unsigned long); void c_k_jp_slice(int, long, int, long, long, unsigned long);
int k_jm_slice(int, long, int, long, long, unsigned long); int c_k_jm_slice(int, long, int, long, long, unsigned long);
unsigned long mj_size; static std::vector<unsigned long> seen;
void mj_visit(unsigned long j) { seen.push_back(j); }
void mj2_emplace(void) {}
}
ST_MAIN_BEGIN
  // slices from the repository's jsonpath/jmespath tests ([1:3], [-2:], [::2], [::-1], [5:0:-2], ...) plus seeded random vectors (steps kept small enough that the real code has no UB)
  long fx[][5] = {{1,1,1,3,1},{1,-2,0,0,1},{0,0,0,0,2},{0,0,0,0,-1},{1,5,1,0,-2},{1,0,1,100,3},{1,-100,1,100,1},{1,3,1,-100,-1},{0,0,1,2,1},{1,2,1,2,1}};
  for (auto& f : fx) for (unsigned long sz = 0; sz < 7; sz++) {
    seen.clear(); k_jp_slice(f[0], f[1], f[2], f[3], f[4], sz); auto a = seen; seen.clear(); c_k_jp_slice(f[0], f[1], f[2], f[3], f[4], sz); ST_CHECK(a == seen);
    seen.clear(); int e1 = k_jm_slice(f[0], f[1], f[2], f[3], f[4], sz); a = seen; seen.clear(); int e2 = c_k_jm_slice(f[0], f[1], f[2], f[3], f[4], sz); ST_CHECK(a == seen && e1 == e2); }
  for (int it = 0; it < 100000; it++) {
    int hs = st_rand() & 1, he = st_rand() & 1; long st = (long)(st_rand() % 41) - 20, en = (long)(st_rand() % 41) - 20, step = (long)(st_rand() % 13) - 6; unsigned long sz = st_rand() % 9;
    if (st_rand() % 16 == 0) st = (long)st_rand() / 4; if (st_rand() % 16 == 0) en = (long)st_rand() / 4;
    seen.clear(); k_jp_slice(hs, st, he, en, step, sz); auto a = seen; seen.clear(); c_k_jp_slice(hs, st, he, en, step, sz); ST_CHECK(a == seen);
    seen.clear(); int e1 = k_jm_slice(hs, st, he, en, step, sz); a = seen; seen.clear(); int e2 = c_k_jm_slice(hs, st, he, en, step, sz); ST_CHECK(a == seen && e1 == e2);
  }
ST_MAIN_END
