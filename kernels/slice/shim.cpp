// kernel "slice": JSONPath slice_selector::select / index arithmetic and JMESPath slice_projection loop, instantiated with a model Json
// (the selectors are templates over Json/JsonReference; the DOM behind current.size()/operator[] is replaced by a recording model).
#include "vshim.h"
#include <jsoncons/json.hpp>
#include <jsoncons_ext/jsonpath/jsonpath.hpp>
using namespace jsoncons;
extern "C" { extern unsigned long mj_size; void mj_visit(unsigned long j); }
struct MJ {
    using char_type = char; using string_view_type = jsoncons::string_view; using string_type = std::string; using allocator_type = std::allocator<char>;
    using char_traits_type = std::char_traits<char>; using pointer = MJ*; using const_pointer = const MJ*; using reference = MJ&; using const_reference = const MJ&;
    bool is_array() const { return true; }
    std::size_t size() const { return mj_size; }
    MJ& operator[](std::size_t j) { mj_visit(j); return *this; }
    const MJ& operator[](std::size_t j) const { mj_visit(j); return *this; }
    MJ& at(std::size_t j) { mj_visit(j); return *this; }
    const MJ& at(std::size_t j) const { mj_visit(j); return *this; }
};
using sel_t = jsonpath::detail::slice_selector<MJ, MJ&>;
struct recv : jsonpath::detail::node_receiver<MJ, MJ&> {
    void add(const jsonpath::basic_path_node<char>&, MJ&) override {}
};
KFN void k_jp_slice(int has_start, long start, int has_stop, long stop, long step, unsigned long size) {
    mj_size = size;
    jsonpath::detail::slice sl;
    if (has_start) sl.start_ = start;
    if (has_stop) sl.stop_ = stop;
    sl.step_ = step;
    alignas(16) unsigned char raw[sizeof(sel_t)] = {0};
    sel_t* s = reinterpret_cast<sel_t*>(raw);
    s->slice_ = sl;
    alignas(16) unsigned char rawctx[sizeof(jsonpath::detail::eval_context<MJ, MJ&>)] = {0};
    auto* ctx = reinterpret_cast<jsonpath::detail::eval_context<MJ, MJ&>*>(rawctx);
    MJ cur; recv r; jsonpath::basic_path_node<char> root;
    s->sel_t::select(*ctx, cur, root, cur, r, jsonpath::result_options());
}

// K12.2 index_selector::select (negative indices count from the end)
using isel_t = jsonpath::detail::index_selector<MJ, MJ&>;
KFN void k_jp_index(long index, unsigned long size) {
    mj_size = size;
    alignas(16) unsigned char raw[sizeof(isel_t)] = {0};
    isel_t* s = reinterpret_cast<isel_t*>(raw);
    s->index_ = index;
    alignas(16) unsigned char rawctx[sizeof(jsonpath::detail::eval_context<MJ, MJ&>)] = {0};
    auto* ctx = reinterpret_cast<jsonpath::detail::eval_context<MJ, MJ&>*>(rawctx);
    MJ cur; recv r; jsonpath::basic_path_node<char> root;
    s->isel_t::select(*ctx, cur, root, cur, r, jsonpath::result_options());
}

// ---- JMESPath slice_projection::evaluate with a model Json
#include <jsoncons_ext/jmespath/jmespath.hpp>
extern "C" { void mj2_emplace(void); }
struct MJ2 {
    using char_type = char; using string_view_type = jsoncons::string_view; using string_type = std::string; using allocator_type = std::allocator<char>;
    using char_traits_type = std::char_traits<char>; using pointer = const MJ2*; using const_pointer = const MJ2*; using reference = const MJ2&; using const_reference = const MJ2&;
    int isnull;
    MJ2() : isnull(0) {}
    MJ2(json_array_arg_t) : isnull(0) {}
    MJ2(null_type, semantic_tag) : isnull(1) {}
    bool is_array() const { return true; }
    bool is_null() const { return isnull != 0; }
    std::size_t size() const { return mj_size; }
    const MJ2& at(std::size_t j) const { mj_visit(j); return *this; }
    void emplace_back(const_json_ptr_arg_t, const MJ2*) { mj2_emplace(); }
    static const MJ2& null() { static MJ2 n; return n; }
};
using jev = jmespath::detail::jmespath_evaluator<MJ2>;
KFN int k_jm_slice(int has_start, long start, int has_stop, long stop, long step, unsigned long size) {
    mj_size = size;
    jmespath::detail::slice sl;
    if (has_start) sl.start_ = start;
    if (has_stop) sl.stop_ = stop;
    sl.step_ = step;
    using sp_t = jev::slice_projection;
    alignas(16) unsigned char raw[sizeof(sp_t)] = {0};
    sp_t* s = reinterpret_cast<sp_t*>(raw);
    s->slice_ = sl;
    std::vector<std::unique_ptr<MJ2>> temp; temp.reserve(4);
    jmespath::eval_context<MJ2> ctx(temp);
    MJ2 cur; std::error_code ec;
    s->sp_t::evaluate(cur, ctx, ec);
    return ec.value();
}
// K12.3 (name quoting in normalized paths): jsonpath::escape_string on member names
#include <jsoncons_ext/jsonpath/jsonpath_utilities.hpp>
KFN unsigned long k_jp_escape(const char* s, unsigned long n, char* buf, unsigned long cap, unsigned long* ret) { fsink k{buf, 0, cap}; *ret = jsoncons::jsonpath::escape_string(s, n, k); return k.n; }
// JMESPath index expression
KFN void k_jm_index(long index, unsigned long size) {
    mj_size = size;
    using is_t = jev::index_selector;
    alignas(16) unsigned char raw[sizeof(is_t)] = {0};
    is_t* s = reinterpret_cast<is_t*>(raw);
    s->index_ = index;
    std::vector<std::unique_ptr<MJ2>> temp; temp.reserve(4);
    jmespath::eval_context<MJ2> ctx(temp);
    MJ2 cur; std::error_code ec;
    s->is_t::evaluate(cur, ctx, ec);
}
