/* harnesses for kernel "slice" (C12 K12.1, C13 K13.1, C05 slice loops) */
#include "kernel.c"
#include "vharness.h"
#define NEED_THROWS
#include "vmodels.h"
#ifndef SZ
#define SZ 5
#endif
INPUT(u32, IN_has_start) INPUT(u64, IN_start) INPUT(u32, IN_has_stop) INPUT(u64, IN_stop) INPUT(u64, IN_step) INPUT(u64, IN_size)
/* model DOM behind current.size() / operator[] / at(): records the visited indices */
u64 mj_size; u64 vis[SZ + 2]; u64 nvis; int oob;
void mj_visit(u64 j) { if (j >= mj_size) oob = 1; P(j < mj_size, "element access within the array (index < size)"); if (nvis < SZ + 2) vis[nvis] = j; nvis++; }
void mj2_emplace(void) {}

/* RFC 9535 section 2.3.4.2.2 (identical to Python slice.indices, which the JMESPath spec prescribes), written from the RFC in 128-bit arithmetic */
static s128 norm(s128 i, s128 len) { return i >= 0 ? i : len + i; }
static s128 mn(s128 a, s128 b) { return a < b ? a : b; }
static s128 mx(s128 a, s128 b) { return a > b ? a : b; }
static u64 ref[SZ + 2]; static u64 nref;
static void ref_slice(int hs, s64 start, int he, s64 stop, s64 step, u64 size) {
  s128 len = size; nref = 0;
  if (step == 0) return;
  s128 st = hs ? (s128)start : (step >= 0 ? 0 : len - 1);
  s128 en = he ? (s128)stop : (step >= 0 ? len : -len - 1);
  s128 ns = norm(st, len), ne = norm(en, len), lower, upper;
  if (step >= 0) { lower = mn(mx(ns, 0), len); upper = mn(mx(ne, 0), len); }
  else { upper = mn(mx(ns, -1), len - 1); lower = mn(mx(ne, -1), len - 1); }
  if (step > 0) { s128 i = lower; for (int k = 0; k < SZ + 1; k++) { if (!(i < upper)) break; if (nref < SZ + 2) ref[nref] = (u64)i; nref++; i += step; } }
  else { s128 i = upper; for (int k = 0; k < SZ + 1; k++) { if (!(lower < i)) break; if (nref < SZ + 2) ref[nref] = (u64)i; nref++; i += step; } }
}
static void inputs(void) {
  HAVOC(IN_has_start); HAVOC(IN_start); HAVOC(IN_has_stop); HAVOC(IN_stop); HAVOC(IN_step); HAVOC(IN_size);
  ASSUME(IN_has_start <= 1 && IN_has_stop <= 1 && IN_size <= SZ);
#ifdef KF_F3_STEP_OVERFLOW
  /* known finding F3: i += step overflows int64 when start + step > INT64_MAX; excluded region */
#endif
  nvis = 0; oob = 0;
}
static void compare(const char* what) {
  P(nvis == nref, "number of selected elements equals the RFC 9535 / Python slice semantics");
  for (int k = 0; k < SZ + 1; k++) if ((u64)k < nvis && (u64)k < nref) P(vis[k] == ref[k], "selected indices, in order, equal the reference slice");
}
HARNESS(h_jp_slice) {
  inputs();
  k_jp_slice(IN_has_start, IN_start, IN_has_stop, IN_stop, IN_step, IN_size);
  ref_slice(IN_has_start, (s64)IN_start, IN_has_stop, (s64)IN_stop, (s64)IN_step, IN_size);
  compare("jsonpath");
  WIT(nvis == 2 && (s64)IN_step < -1 && IN_has_start && (s64)IN_start < 0);
}
HARNESS(h_jm_slice) {
  inputs();
  u32 ec = k_jm_slice(IN_has_start, IN_start, IN_has_stop, IN_stop, IN_step, IN_size);
  ref_slice(IN_has_start, (s64)IN_start, IN_has_stop, (s64)IN_stop, (s64)IN_step, IN_size);
  P((ec != 0) == (IN_step == 0), "step == 0 is reported as a JMESPath error, every other slice succeeds");
  if (ec == 0) compare("jmespath");
  WIT(nvis == 2 && (s64)IN_step < -1 && IN_has_start && (s64)IN_start < 0);
}

/* ---------------- C12 K12.2: index selector: i >= 0 selects element i, i < 0 selects element size+i, anything outside selects nothing ---------------- */
INPUT(u64, IN_index)
HARNESS(h_jp_index) {
  HAVOC(IN_index); HAVOC(IN_size); ASSUME(IN_size <= 0x7fffffffffffffffULL);   /* container sizes fit ptrdiff_t */
  nvis = 0;
  k_jp_index(IN_index, IN_size);
  s64 i = (s64)IN_index; s128 n = (s128)IN_size; s128 j = i >= 0 ? (s128)i : n + (s128)i;
  if (j >= 0 && j < n) P(nvis == 1 && vis[0] == (u64)j, "exactly the addressed element is selected"); else P(nvis == 0, "an index outside the array selects nothing");
  WIT(nvis == 1 && i < -1);
}

HARNESS(h_jm_index) {
  HAVOC(IN_index); HAVOC(IN_size); ASSUME(IN_size <= 0x7fffffffffffffffULL);
  nvis = 0;
  k_jm_index(IN_index, IN_size);
  s64 i = (s64)IN_index; s128 n = (s128)IN_size; s128 j = i >= 0 ? (s128)i : n + (s128)i;
  if (j >= 0 && j < n) P(nvis == 1 && vis[0] == (u64)j, "exactly the addressed element is returned"); else P(nvis == 0, "an index outside the array yields null");
  WIT(nvis == 1 && i < -1);
}

/* ---------------- C12 K12.3: member names are quoted in normalized paths so that un-escaping gives the name back ---------------- */
#ifndef NE2
#define NE2 3
#endif
INPUT_ARR(u8, IN_name, 6)
HARNESS(h_jp_escape) {
  HAVOC_ARR(IN_name, 6);
  u8* s = malloc(NE2 ? NE2 : 1); ASSUME(s != 0); for (int i = 0; i < NE2; i++) s[i] = IN_name[i];
  u8* out = malloc(2 * NE2 + 2); ASSUME(out != 0); u64 ret = 0;
  u64 w = k_jp_escape(s, NE2, out, 2 * NE2 + 2, &ret);
  P(w == ret && w <= 2 * NE2, "returned count equals the characters written, at most two per input character"); ASSUME(w <= 2 * NE2);
  /* reference un-escaper for single-quoted JSONPath name literals: \\ \' \b \f \n \r \t, everything else literal; a raw ' or a dangling \ is ill formed */
  u64 p = 0; int ok = 1;
  for (int i = 0; i < NE2; i++) { if (!ok) break; if (p >= w) { ok = 0; break; } u8 c = out[p];
    if (c == '\'') { ok = 0; break; }
    if (c == '\\') { if (p + 1 >= w) { ok = 0; break; } u8 e = out[p + 1]; c = e == '\\' ? '\\' : e == '\'' ? '\'' : e == 'b' ? 8 : e == 'f' ? 12 : e == 'n' ? 10 : e == 'r' ? 13 : e == 't' ? 9 : 0; if (c == 0) { ok = 0; break; } p += 2; } else p += 1;
    if (c != s[i]) ok = 0; }
  P(ok && p == w, "the quoted name has no raw quote or dangling backslash and un-escapes to the member name");
  WIT(w == 2 * NE2);
}
