/* harnesses for kernel "mpatch" (C16): apply_merge_patch vs the RFC 7386 MergePatch pseudo-code; apply(source, from_diff(source, target)) == target for null-free targets.
   Trees are encoded over a complete binary tree: node i = {kind(0 null,1 int,2 object), val, has[a], has[b]}, members a/b at 2i+1 / 2i+2. */
#include "kernel.c"
#include "vharness.h"
#ifndef DEPTH
#define DEPTH 2
#endif
#define NN ((1 << (DEPTH + 1)) - 1)
#define FIRST_LEAF ((1 << DEPTH) - 1)
typedef struct S_struct_2efnode fnode;   /* f0 kind, f1 val, f2.a[k] has */
#define KIND(F, i) ((F)[i].f0)
#define VAL(F, i) ((F)[i].f1)
#define HAS(F, i, k) ((F)[i].f2.a[k])
INPUT_ARR(u8, IN_t, 4 * NN) INPUT_ARR(u8, IN_p, 4 * NN)
static void load(fnode* F, const u8* in) { for (int i = 0; i < NN; i++) { KIND(F, i) = in[4 * i]; VAL(F, i) = in[4 * i + 1]; HAS(F, i, 0) = in[4 * i + 2]; HAS(F, i, 1) = in[4 * i + 3]; } }
/* well-formed + canonical: unreachable nodes zero, ints in {0,1}, deepest-level objects empty */
static int reach(const fnode* F, int i) { if (i == 0) return 1; int par = (i - 1) / 2, k = (i - 1) % 2; return reach(F, par) && KIND(F, par) == 2 && HAS(F, par, k); }
static int canon(const fnode* F) {
  for (int i = 0; i < NN; i++) {
    if (KIND(F, i) > 2 || HAS(F, i, 0) > 1 || HAS(F, i, 1) > 1 || VAL(F, i) > 1) return 0;
    if (KIND(F, i) != 1 && VAL(F, i)) return 0;
    if (KIND(F, i) != 2 && (HAS(F, i, 0) || HAS(F, i, 1))) return 0;
    if (i >= FIRST_LEAF && (HAS(F, i, 0) || HAS(F, i, 1))) return 0;
    if (!reach(F, i) && (KIND(F, i) || VAL(F, i) || HAS(F, i, 0) || HAS(F, i, 1))) return 0; }
  return 1;
}
static void copy_sub(const fnode* S, fnode* O, int i) { O[i] = S[i]; if (i < FIRST_LEAF) for (int k = 0; k < 2; k++) if (KIND(S, i) == 2 && HAS(S, i, k)) copy_sub(S, O, 2 * i + 1 + k); }
/* RFC 7386 section 2 */
static void ref_merge(int tpresent, const fnode* T, const fnode* P, fnode* O, int i) {
  if (KIND(P, i) == 2) {
    int tobj = tpresent && KIND(T, i) == 2;
    KIND(O, i) = 2; VAL(O, i) = 0;
    for (int k = 0; k < 2; k++) { int c = 2 * i + 1 + k; int thas = tobj && HAS(T, i, k);
      if (i < FIRST_LEAF && HAS(P, i, k)) { if (KIND(P, c) == 0) HAS(O, i, k) = 0; else { HAS(O, i, k) = 1; ref_merge(thas, T, P, O, c); } }
      else if (thas) { HAS(O, i, k) = 1; copy_sub(T, O, c); } else HAS(O, i, k) = 0; }
  } else copy_sub(P, O, i);
}
static int same(const fnode* A, const fnode* B) { for (int i = 0; i < NN; i++) if (KIND(A, i) != KIND(B, i) || VAL(A, i) != VAL(B, i) || HAS(A, i, 0) != HAS(B, i, 0) || HAS(A, i, 1) != HAS(B, i, 1)) return 0; return 1; }
HARNESS(h_apply) {
  HAVOC_OBJ(IN_t); HAVOC_OBJ(IN_p);
  fnode T[NN], Pt[NN], O[NN], R[NN]; load(T, IN_t); load(Pt, IN_p); memset(O, 0, sizeof O); memset(R, 0, sizeof R);
  ASSUME(canon(T) && canon(Pt));
  u32 over = 0; IRC_THROW_ALLOWED = 0;
  k_mp_apply(T, Pt, O, &over);
  P(over == 0, "result fits the depth bound / arena (model DOM bound, not a property of the code)");
  ref_merge(1, T, Pt, R, 0);
  P(same(O, R), "apply_merge_patch(target, patch) == RFC 7386 MergePatch(target, patch)");
  WIT(KIND(T, 0) == 2 && KIND(Pt, 0) == 2 && HAS(Pt, 0, 0) && HAS(T, 0, 0) && KIND(Pt, 1) == 2 && KIND(T, 1) == 2 && HAS(Pt, 0, 1) && KIND(Pt, 2) == 0 && HAS(T, 0, 1));
}
static int nullfree(const fnode* F) { for (int i = 1; i < NN; i++) if (reach(F, i) && KIND(F, i) == 0) return 0; return 1; }
HARNESS(h_diff) {
  HAVOC_OBJ(IN_t); HAVOC_OBJ(IN_p);
  fnode S[NN], T[NN], O[NN]; load(S, IN_t); load(T, IN_p); memset(O, 0, sizeof O);
  ASSUME(canon(S) && canon(T) && nullfree(T));
  u32 over = 0; IRC_THROW_ALLOWED = 0;
  k_mp_diff_apply(S, T, O, &over);
  P(over == 0, "result fits the depth bound / arena");
  P(same(O, T), "apply_merge_patch(source, from_diff(source, target)) == target for targets without null members");
  WIT(KIND(S, 0) == 2 && KIND(T, 0) == 2 && HAS(S, 0, 0) && !HAS(T, 0, 0) && HAS(S, 0, 1) && HAS(T, 0, 1) && KIND(S, 2) == 2 && KIND(T, 2) == 2);
}
