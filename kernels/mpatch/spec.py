"""kernel mpatch: the REAL mergepatch::apply_merge_patch / detail::apply_merge_patch_ / from_diff templates instantiated with a bounded model DOM.  Serves C16."""
ASSUMPTIONS = ['mpatch/*: Json = bounded model DOM (null / int in {0,1} / object with member names from {a,b}); target and patch are ARBITRARY trees of depth <= DEPTH (2 quick, 3 thorough); h_diff: the target has no null members (as the property states)',
               'mpatch: what is verified is the anchored recursion in mergepatch.hpp; basic_json::find/erase/try_emplace themselves are not part of this kernel (C09)']
STUB_NOTES = ['MJ model DOM: value semantics by deep copy into a static arena of 96 nodes (overflow is reported as a failed bound assertion, never ignored)']
CLANG_EXTRA_BY_DEPTH = True
def jobs(tier):
    J = []
    for d in ([1, 2, 3] if tier == 'thorough' else [1, 2]):
        J.append(dict(id='apply_d%d' % d, harness='h_apply', props=['C16'], unwind=2 ** (d + 1) + 1, defs=dict(DEPTH=d), timeout=1200 if d > 2 else 600, mem_gb=8, desc='apply_merge_patch == RFC 7386 MergePatch', bound='all (target, patch) pairs of depth <= %d over keys {a,b}, leaves null/0/1/{}' % d))
        J.append(dict(id='diff_d%d' % d, harness='h_diff', props=['C16'], unwind=2 ** (d + 1) + 1, defs=dict(DEPTH=d), timeout=1200 if d > 2 else 600, mem_gb=8, desc='apply(source, from_diff(source, target)) == target', bound='all (source, null-free target) pairs of depth <= %d' % d))
    return J
