"""kernel mpatch: the REAL mergepatch::apply_merge_patch / detail::apply_merge_patch_ / from_diff templates instantiated with a bounded model DOM.  Serves C16."""
ASSUMPTIONS = ['mpatch/*: Json = bounded model DOM (null / int in {0,1} / object with member names from {a,b}); target and patch are ARBITRARY trees of depth <= DEPTH (2 quick, 3 thorough); h_diff: the target has no null members (as the property states)',
               'mpatch: what is verified is the anchored recursion in mergepatch.hpp; basic_json::find/erase/try_emplace themselves are not part of this kernel (C09)']
STUB_NOTES = ['MJ model DOM: value semantics by deep copy into a static arena of 96 nodes (overflow is reported as a failed bound assertion, never ignored)']
CLANG_EXTRA_BY_DEPTH = True
REC = ['_ZN8jsoncons10mergepatch6detail18apply_merge_patch_I2MJEET_RS4_RKS4_', '_ZN8jsoncons10mergepatch9from_diffI2MJEET_RKS3_S5_']
def jobs(tier):
    J = []
    for d in ([1, 2, 3] if tier == 'thorough' else [1, 2]):
        nn = 2 ** (d + 1) - 1
        us = ['%s:%d' % (f, d + 2) for f in REC]   # the recursion of the code under test is bounded by the depth of the model DOM (+1 for the leaf call, +1 slack checked by the unwinding assertion)
        for h, desc in (('h_apply', 'apply_merge_patch == RFC 7386 MergePatch'), ('h_diff', 'apply(source, from_diff(source, target)) == target for targets without null members')):
            if h == 'h_diff' and d > 2:
                continue   # measured: apply at depth 3 decides in 19 min, from_diff o apply at depth 3 gives no verdict in 30 min (stated outside the bound)
            J.append(dict(id='%s_d%d' % (h[2:], d), harness=h, props=['C16'], unwind=nn + 2, unwindset=us, defs=dict(DEPTH=d), shim_defs=dict(DEPTH=d), timeout=2400 if d > 2 else 900, mem_gb=12 if d > 2 else 8,
                          desc=desc, bound='all trees of depth <= %d over member names {a,b}, leaves null/0/1/{}' % d))
    return J
