// kernel "mpatch": the REAL jsoncons::mergepatch::apply_merge_patch / detail::apply_merge_patch_ / from_diff templates (mergepatch.hpp is templated on Json),
// instantiated with a bounded model DOM "MJ": values are null / int / object with member names drawn from {a,b}, depth <= DEPTH.
// MJ is deliberately NON-recursive in its own operations (copy, assignment, equality are loops over the positions of a complete binary tree), so that the only
// recursion the solver has to unwind is the recursion of the code under test.  What is verified is the anchored recursion (delete / recurse / replace,
// target-is-not-an-object, from_diff); basic_json's own object code is C09's business.
#include "vshim.h"
#include <jsoncons/json_type.hpp>
#include <jsoncons_ext/mergepatch/mergepatch.hpp>
using namespace jsoncons;
#ifndef DEPTH
#define DEPTH 2
#endif
#define NKEY 2
#define NN ((1u << (DEPTH + 1)) - 1)
extern "C" { unsigned mj_over; }
// MJ is a pure VALUE type: NN inline node slots (positions of a complete binary tree), no pointers, no heap.  member.value() returns a reference to a copy of
// the member's subtree held inside the iterator (mergepatch.hpp only reads through value()); try_emplace copies a value into the member's positions.
struct MJ {
    unsigned char f[NN][4];      // per position: kind (0 null, 1 int, 2 object), val, has[a], has[b]
    void zero() { for (unsigned i = 0; i < NN; ++i) { f[i][0] = f[i][1] = f[i][2] = f[i][3] = 0; } }
    MJ() { zero(); }
    explicit MJ(json_object_arg_t) { zero(); f[0][0] = 2; }
    MJ(const MJ& o) { for (unsigned i = 0; i < NN; ++i) for (unsigned w = 0; w < 4; ++w) f[i][w] = o.f[i][w]; }
    MJ& operator=(const MJ& o) { for (unsigned i = 0; i < NN; ++i) for (unsigned w = 0; w < 4; ++w) f[i][w] = o.f[i][w]; return *this; }
    static MJ null() { return MJ(); }
    bool is_object() const { return f[0][0] == 2; }
    bool is_null() const { return f[0][0] == 0; }
    bool is_array() const { return false; }
    bool is_string() const { return false; }
    bool is_number() const { return f[0][0] == 1; }
    bool hask_(int k) const { return f[0][0] == 2 && f[0][2 + k] != 0; }
    bool hask(int k) const { return k == 0 ? hask_(0) : k == 1 ? hask_(1) : false; }
    bool empty() const { return f[0][0] == 2 && !f[0][2] && !f[0][3]; }          // as basic_json::empty(): true for an object without members, false for null / numbers
    std::size_t size() const { return f[0][0] == 2 ? (std::size_t)(f[0][2] != 0) + (f[0][3] != 0) : 0; }
    // positions of member k's subtree inside this value: cm[p] for child-relative position p
    static void childmap(int k, unsigned* cm) { cm[0] = 1 + (unsigned)k; for (unsigned p = 1; p < NN; ++p) { unsigned par = (p - 1) / 2, kk = (p - 1) % 2; cm[p] = cm[par] < NN ? 2 * cm[par] + 1 + kk : NN; } }
    MJ sub(int k) const { return k == 0 ? sub_(0) : sub_(1); }
    MJ sub_(int k) const { MJ r; unsigned cm[NN]; childmap(k, cm); for (unsigned p = 0; p < NN; ++p) if (cm[p] < NN) for (unsigned w = 0; w < 4; ++w) r.f[p][w] = f[cm[p]][w]; return r; }
    void put(int k, const MJ& v) { if (k == 0) put_(0, v); else put_(1, v); }
    void put_(int k, const MJ& v) { unsigned cm[NN]; childmap(k, cm); unsigned char live[NN]; live[0] = 1;
        for (unsigned p = 0; p < NN; ++p) { if (p) { unsigned par = (p - 1) / 2, kk = (p - 1) % 2; live[p] = live[par] && v.f[par][0] == 2 && v.f[par][2 + kk]; }
            if (cm[p] < NN) { for (unsigned w = 0; w < 4; ++w) f[cm[p]][w] = live[p] ? v.f[p][w] : 0; } else if (live[p]) mj_over = 1; }   // deeper than the bound: reported
        f[0][2 + k] = 1; }
    struct iter; struct range;
    range object_range() const; iter find(int key) const; void erase(const iter& it); void erase(int key) { if (key == 0) { if (hask_(0)) f[0][2] = 0; } else if (key == 1) { if (hask_(1)) f[0][3] = 0; } }
    bool contains(int key) const { return hask(key); }
    MJ at(int key) const { return sub(key); }
    void try_emplace(int key, const MJ& v) { if (is_object() && key >= 0 && key < NKEY && !hask(key)) put(key, v); }
    void insert_or_assign(int key, const MJ& v) { if (is_object() && key >= 0 && key < NKEY) put(key, v); }
    bool operator==(const MJ& o) const {
        unsigned char live[NN]; live[0] = 1;
        for (unsigned p = 0; p < NN; ++p) {
            if (p) { unsigned par = (p - 1) / 2, k = (p - 1) % 2; live[p] = live[par] && f[par][0] == 2 && f[par][2 + k]; }
            if (!live[p]) continue;
            if (f[p][0] != o.f[p][0]) return false;
            if (f[p][0] == 1 && f[p][1] != o.f[p][1]) return false;
            if (f[p][0] == 2 && ((f[p][2] != 0) != (o.f[p][2] != 0) || (f[p][3] != 0) != (o.f[p][3] != 0))) return false;
        }
        return true;
    }
    bool operator!=(const MJ& o) const { return !(*this == o); }
};
struct mj_member { MJ val; int k; int key() const { return k; } MJ& value() { return val; } const MJ& value() const { return val; } };
// Iteration is over POSITIONS 0,1 (concrete counters) of the present members, so that a range-for over an object unrolls to at most NKEY iterations during
// symbolic execution; find() returns a "direct" iterator naming its key.
struct MJ::iter { const MJ* owner; int p; int direct; mutable mj_member m;
    iter(const MJ* o, int pp, int d) : owner(o), p(pp), direct(d) { m.k = 0; }
    int key() const { if (direct >= 0) return direct; return p == 0 ? (owner->hask_(0) ? 0 : 1) : 1; }
    bool live() const { if (direct >= 0) return true; return p < NKEY && p < (int)owner->size(); }
    mj_member& operator*() const { int k = key(); if (k == 0) { m.k = 0; m.val = owner->sub_(0); } else { m.k = 1; m.val = owner->sub_(1); } return m; }
    iter& operator++() { ++p; return *this; }
    bool operator!=(const iter& o) const { return live() != o.live() || (live() && o.live() && key() != o.key()); }
    bool operator==(const iter& o) const { return !(*this != o); } };
struct MJ::range { MJ::iter b, e; MJ::iter begin() const { return b; } MJ::iter end() const { return e; } };
inline MJ::range MJ::object_range() const { return range{iter{this, 0, -1}, iter{this, NKEY, -1}}; }
inline MJ::iter MJ::find(int key) const { if (hask(key)) return iter{this, 0, key}; return iter{this, NKEY, -1}; }
inline void MJ::erase(const iter& it) { if (is_object() && it.live()) { if (it.key() == 0) f[0][2] = 0; else f[0][3] = 0; } }
struct fnode { unsigned char kind, val, has[NKEY]; };
static void build(MJ& j, const fnode* f) { for (unsigned i = 0; i < NN; ++i) { j.f[i][0] = f[i].kind; j.f[i][1] = f[i].val; j.f[i][2] = f[i].has[0]; j.f[i][3] = f[i].has[1]; } }
// canonical dump: unreachable positions zero
static void dump(const MJ& j, fnode* f) {
    unsigned char live[NN]; live[0] = 1;
    for (unsigned i = 0; i < NN; ++i) { if (i) { unsigned par = (i - 1) / 2, k = (i - 1) % 2; live[i] = live[par] && j.f[par][0] == 2 && j.f[par][2 + k]; }
        f[i].kind = live[i] ? j.f[i][0] : 0; f[i].val = (live[i] && j.f[i][0] == 1) ? j.f[i][1] : 0; f[i].has[0] = (live[i] && j.f[i][0] == 2) ? j.f[i][2] : 0; f[i].has[1] = (live[i] && j.f[i][0] == 2) ? j.f[i][3] : 0; }
}
KFN void k_mp_apply(const fnode* target, const fnode* patch, fnode* out, unsigned* over) {
    mj_over = 0; MJ t, p; build(t, target); build(p, patch);
    mergepatch::apply_merge_patch(t, p);
    dump(t, out); *over = mj_over;
}
KFN void k_mp_diff(const fnode* source, const fnode* target, fnode* out, unsigned* over) {
    mj_over = 0; MJ s, t; build(s, source); build(t, target);
    MJ d = mergepatch::from_diff(s, t);
    dump(d, out); *over = mj_over;
}
KFN void k_mp_diff_apply(const fnode* source, const fnode* target, fnode* out, unsigned* over) {
    mj_over = 0; MJ s, t; build(s, source); build(t, target);
    MJ d = mergepatch::from_diff(s, t);
    mergepatch::apply_merge_patch(s, d);
    dump(s, out); *over = mj_over;
}
