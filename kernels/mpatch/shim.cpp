// kernel "mpatch": the REAL jsoncons::mergepatch::apply_merge_patch / detail::apply_merge_patch_ / from_diff templates (mergepatch.hpp is templated on Json),
// instantiated with a bounded model DOM "MJ": values are null / int / object with member names drawn from {a,b}, depth <= DEPTH.
// MJ is deliberately NON-recursive in its own operations (copy, assignment, equality are loops over the positions of a complete binary tree), so that the only
// recursion the solver has to unwind is the recursion of the code under test.  What is verified is the anchored recursion (delete / recurse / replace,
// target-is-not-an-object, from_diff); basic_json's own object code is C09's business.
#include "vshim.h"
#include <jsoncons/json_type.hpp>
#include <jsoncons_ext/mergepatch/mergepatch.hpp>
using namespace jsoncons;
#ifndef DEPTH
#define DEPTH 2
#endif
#define NKEY 2
#define NN ((1u << (DEPTH + 1)) - 1)
extern "C" { unsigned mj_over; }
// A value owns NN inline node slots (complete binary tree positions).  An MJ object is either a value (st == this, idx == 0) or a non-owning HANDLE
// to position idx inside another value (what member.value() returns).  No heap, no arena: every pointer targets a named local object.
struct MJ {
    unsigned char f[NN][4];      // per position: kind (0 null, 1 int, 2 object), val, has[a], has[b]
    MJ* st; unsigned idx;
    struct handle_t {};
    MJ(handle_t, MJ* store, unsigned i) : st(store), idx(i) {}
    void zero() { for (unsigned i = 0; i < NN; ++i) { f[i][0] = f[i][1] = f[i][2] = f[i][3] = 0; } st = this; idx = 0; }
    MJ() { zero(); }
    explicit MJ(json_object_arg_t) { zero(); f[0][0] = 2; }
    MJ(const MJ& o) { zero(); assign(o); }
    MJ& operator=(const MJ& o) { if (this != &o) assign(o); return *this; }
    unsigned char& F(unsigned i, unsigned w) const { return st->f[i < NN ? i : NN - 1][w]; }
    void assign(const MJ& o) {
        unsigned si[NN], di[NN]; unsigned char t[NN][4]; unsigned char live[NN];
        si[0] = o.idx; di[0] = idx; live[0] = 1;
        for (unsigned p = 1; p < NN; ++p) { unsigned par = (p - 1) / 2, k = (p - 1) % 2; si[p] = si[par] < NN ? 2 * si[par] + 1 + k : NN; di[p] = di[par] < NN ? 2 * di[par] + 1 + k : NN;
            live[p] = (live[par] && si[par] < NN && o.F(si[par], 0) == 2 && o.F(si[par], 2 + k)) ? 1 : 0; }
        for (unsigned p = 0; p < NN; ++p) { t[p][0] = t[p][1] = t[p][2] = t[p][3] = 0; if (live[p]) { if (si[p] >= NN) { mj_over = 1; continue; } for (unsigned w = 0; w < 4; ++w) t[p][w] = o.F(si[p], w); } }
        for (unsigned p = 0; p < NN; ++p) { if (di[p] < NN) { for (unsigned w = 0; w < 4; ++w) F(di[p], w) = t[p][w]; } else if (live[p]) mj_over = 1; }
    }
    static MJ null() { return MJ(); }
    bool is_object() const { return F(idx, 0) == 2; }
    bool is_null() const { return F(idx, 0) == 0; }
    bool hask(int k) const { return F(idx, 0) == 2 && F(idx, 2 + k) != 0; }
    unsigned kidx(int k) const { unsigned c = 2 * idx + 1 + (unsigned)k; if (c >= NN) { mj_over = 1; c = NN - 1; } return c; }
    struct iter; struct range;
    range object_range() const; iter find(int key) const; void erase(const iter& it);
    void try_emplace(int key, const MJ& v) { if (is_object() && !hask(key)) { MJ h(handle_t(), st, kidx(key)); h.assign(v); F(idx, 2 + key) = 1; } }
    bool operator==(const MJ& o) const {
        unsigned ai[NN], bi[NN]; unsigned char live[NN]; ai[0] = idx; bi[0] = o.idx; live[0] = 1;
        for (unsigned p = 0; p < NN; ++p) {
            if (p) { unsigned par = (p - 1) / 2, k = (p - 1) % 2; ai[p] = ai[par] < NN ? 2 * ai[par] + 1 + k : NN; bi[p] = bi[par] < NN ? 2 * bi[par] + 1 + k : NN;
                live[p] = (live[par] && F(ai[par], 0) == 2 && F(ai[par], 2 + k)) ? 1 : 0; }
            if (!live[p]) continue;
            if (ai[p] >= NN || bi[p] >= NN) { mj_over = 1; return false; }
            if (F(ai[p], 0) != o.F(bi[p], 0)) return false;
            if (F(ai[p], 0) == 1 && F(ai[p], 1) != o.F(bi[p], 1)) return false;
            if (F(ai[p], 0) == 2 && (F(ai[p], 2) != o.F(bi[p], 2) || F(ai[p], 3) != o.F(bi[p], 3))) return false;
        }
        return true;
    }
    bool operator!=(const MJ& o) const { return !(*this == o); }
};
struct mj_member { MJ child; int k; mj_member(MJ* store, unsigned ci, int kk) : child(MJ::handle_t(), store, ci), k(kk) {} int key() const { return k; } MJ& value() { return child; } const MJ& value() const { return child; } };
struct MJ::iter { MJ* owner; int k; mutable mj_member m;
    iter(MJ* o, int kk) : owner(o), k(kk), m(o->st, 0, kk) {}
    void skip() { while (k < NKEY && !owner->hask(k)) ++k; }
    mj_member& operator*() const { m.child.st = owner->st; m.child.idx = owner->kidx(k); m.k = k; return m; }
    iter& operator++() { ++k; skip(); return *this; }
    bool operator!=(const iter& o) const { return k != o.k; }
    bool operator==(const iter& o) const { return k == o.k; } };
struct MJ::range { MJ::iter b, e; MJ::iter begin() const { return b; } MJ::iter end() const { return e; } };
inline MJ::range MJ::object_range() const { MJ* s = const_cast<MJ*>(this); iter b{s, 0}; b.skip(); return range{b, iter{s, NKEY}}; }
inline MJ::iter MJ::find(int key) const { MJ* s = const_cast<MJ*>(this); if (key >= 0 && key < NKEY && hask(key)) return iter{s, key}; return iter{s, NKEY}; }
inline void MJ::erase(const iter& it) { if (is_object() && it.k < NKEY) F(idx, 2 + it.k) = 0; }
struct fnode { unsigned char kind, val, has[NKEY]; };
static void build(MJ& j, const fnode* f) { for (unsigned i = 0; i < NN; ++i) { j.f[i][0] = f[i].kind; j.f[i][1] = f[i].val; j.f[i][2] = f[i].has[0]; j.f[i][3] = f[i].has[1]; } }
// canonical dump: unreachable positions zero
static void dump(const MJ& j, fnode* f) {
    unsigned char live[NN]; live[0] = 1;
    for (unsigned i = 0; i < NN; ++i) { if (i) { unsigned par = (i - 1) / 2, k = (i - 1) % 2; live[i] = live[par] && j.f[par][0] == 2 && j.f[par][2 + k]; }
        f[i].kind = live[i] ? j.f[i][0] : 0; f[i].val = (live[i] && j.f[i][0] == 1) ? j.f[i][1] : 0; f[i].has[0] = (live[i] && j.f[i][0] == 2) ? j.f[i][2] : 0; f[i].has[1] = (live[i] && j.f[i][0] == 2) ? j.f[i][3] : 0; }
}
KFN void k_mp_apply(const fnode* target, const fnode* patch, fnode* out, unsigned* over) {
    mj_over = 0; MJ t, p; build(t, target); build(p, patch);
    mergepatch::apply_merge_patch(t, p);
    dump(t, out); *over = mj_over;
}
KFN void k_mp_diff(const fnode* source, const fnode* target, fnode* out, unsigned* over) {
    mj_over = 0; MJ s, t; build(s, source); build(t, target);
    MJ d = mergepatch::from_diff(s, t);
    dump(d, out); *over = mj_over;
}
KFN void k_mp_diff_apply(const fnode* source, const fnode* target, fnode* out, unsigned* over) {
    mj_over = 0; MJ s, t; build(s, source); build(t, target);
    MJ d = mergepatch::from_diff(s, t);
    mergepatch::apply_merge_patch(s, d);
    dump(s, out); *over = mj_over;
}
