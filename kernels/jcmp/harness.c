/* harness for kernel "jcmp" (C09 K9.1: equality/ordering laws of basic_json::compare on scalar kinds and references) */
#include "kernel.c"
#include "vharness.h"
#define NEED_THROWS
#include "vmodels.h"
INPUT(u32, IN_ka) INPUT(u32, IN_ra) INPUT(u64, IN_ba) INPUT_ARR(u8, IN_sa, 4) INPUT(u32, IN_la)
INPUT(u32, IN_kb) INPUT(u32, IN_rb) INPUT(u64, IN_bb) INPUT_ARR(u8, IN_sb, 4) INPUT(u32, IN_lb)
#ifndef REPLAY
/* strtod, exact on the strings the harness supplies for number-tagged text: a single decimal digit */
double strtod(u8* s, u8** endp) { P(s[0] >= '0' && s[0] <= '9' && s[1] == 0, "strtod model bound: single digit"); *endp = s + 1; return (double)(s[0] - '0'); }
#endif
static int sgn(u32 x) { s32 v = (s32)x; return v > 0 ? 1 : v < 0 ? -1 : 0; }
static int isnan_bits(u64 b) { return ((b & 0x7ff0000000000000ULL) == 0x7ff0000000000000ULL) && (b & 0xfffffffffffffULL); }
static int half_isnan(u64 b) { return ((b & 0x7c00) == 0x7c00) && (b & 0x3ff); }
static void laws(u32 ka, u32 ra, u32 kb, u32 rb) {
  if (ka == 5) ASSUME(!isnan_bits(IN_ba)); if (kb == 5) ASSUME(!isnan_bits(IN_bb));          /* "NaN aside" */
  if (ka == 6) ASSUME(!half_isnan(IN_ba)); if (kb == 6) ASSUME(!half_isnan(IN_bb));
  if (ka == 8) ASSUME(IN_la == 1 && IN_sa[0] >= '0' && IN_sa[0] <= '9');                     /* number-tagged text: one digit (strtod model bound) */
  if (kb == 8) ASSUME(IN_lb == 1 && IN_sb[0] >= '0' && IN_sb[0] <= '9');
  u8 sa[4], sb[4]; sa[0] = IN_sa[0]; sa[1] = IN_sa[1]; sa[2] = IN_sa[2]; sa[3] = IN_sa[3]; sb[0] = IN_sb[0]; sb[1] = IN_sb[1]; sb[2] = IN_sb[2]; sb[3] = IN_sb[3];
  u32 out[9];
  k_cmp(ka, ra, IN_ba, sa, IN_la, kb, rb, IN_bb, sb, IN_lb, out);
  P(sgn(out[0]) == -sgn(out[1]), "compare is antisymmetric: sgn(a.compare(b)) == -sgn(b.compare(a)) (equality is symmetric)");
  P(out[8] == 0, "compare is reflexive: a value equals an identically constructed value");
  P((out[2] != 0) == (sgn(out[0]) == 0), "operator== agrees with compare");
  P((out[3] != 0) == (sgn(out[0]) != 0), "operator!= agrees with compare");
  P((out[4] != 0) == (sgn(out[0]) < 0), "operator< agrees with compare");
  P((out[5] != 0) == (sgn(out[0]) <= 0), "operator<= agrees with compare");
  P((out[6] != 0) == (sgn(out[0]) > 0), "operator> agrees with compare");
  P((out[7] != 0) == (sgn(out[0]) >= 0), "operator>= agrees with compare");
  WIT(out[8] == 0 || out[8] != 0);   /* the laws were evaluated on a real pair of values */
}
/* kinds and reference flags reach the kernel as CONSTANTS (one call site per combination): the storage kind of every value is then known during
   symbolic execution and the recursive ref-unwrapping in compare()/tag()/empty() folds instead of being explored to the unwinding bound */
#ifndef KSET_A
#define KSET_A 2
#endif
#ifndef RBMAX
#define RBMAX 0
#endif
#ifndef RSET_A
#define RSET_A 0
#endif
#define RB(b, r) else if (IN_kb == b && IN_rb == r) laws(KSET_A, RSET_A, b, r);
#define KB(b) RB(b, 0) RB(b, 1) RB(b, 2)
HARNESS(h_laws) {
  HAVOC(IN_ba); HAVOC(IN_sa[0]); HAVOC(IN_sa[1]); HAVOC(IN_sa[2]); HAVOC(IN_sa[3]); HAVOC(IN_la); HAVOC(IN_kb); HAVOC(IN_rb); HAVOC(IN_bb); HAVOC(IN_sb[0]); HAVOC(IN_sb[1]); HAVOC(IN_sb[2]); HAVOC(IN_sb[3]); HAVOC(IN_lb);
  IN_ka = KSET_A; IN_ra = RSET_A;
  ASSUME(IN_kb <= 8 && IN_rb <= RBMAX && IN_la <= 3 && IN_lb <= 3);
#ifdef KSET_B
  IN_kb = KSET_B; IN_rb = 0; laws(KSET_A, RSET_A, KSET_B, 0);   /* one concrete (lhs kind, rhs kind) pair per job */
#else
  if (0) {} KB(0) KB(1) KB(2) KB(3) KB(4) KB(5) KB(6) KB(7) KB(8)
#endif
}

/* is<T>() / as<T>() agreement on integer-stored values: is<T>() is true exactly when the stored number is representable in T, and then as<T>() is that number */
#ifndef TBITS
#define TBITS 64
#endif
#ifndef TSIGNED
#define TSIGNED 1
#endif
#ifndef TNAME
#define TNAME i64
#endif
#ifndef SKIND
#define SKIND 2
#endif
#define ISAS2(n) k_isas_##n
#define ISAS1(n) ISAS2(n)
HARNESS(h_isas) {
  HAVOC(IN_ba);
  int is = 0; u64 as = 0; ISAS1(TNAME)(SKIND, IN_ba, &is, &as);
  /* the stored mathematical value: int64 storage = (s64)bits, uint64 storage = bits */
  int neg = (SKIND == 2) && ((s64)IN_ba < 0);
  int fits;
  if (TSIGNED) { if (neg) fits = TBITS == 64 ? 1 : ((s64)IN_ba >= -((s64)1 << (TBITS - 1))); else fits = IN_ba <= (TBITS == 64 ? 0x7fffffffffffffffULL : (((u64)1 << (TBITS - 1)) - 1)); }
  else { fits = !neg && (TBITS == 64 ? 1 : IN_ba <= (((u64)1 << TBITS) - 1)); }
  P(!is || fits, "is<T>() is true only when the stored number is representable in T");
  P(is || !fits, "is<T>() is true whenever the stored number is representable in T");
  if (is && fits) P(as == IN_ba, "as<T>() returns the stored number exactly");
  WIT(is && IN_ba > 100);
}
