"""kernel jcmp: the REAL jsoncons::json compare()/==/!=/</<=/>/>= on scalar storage kinds, short strings and (const_)json_ref to them.  Serves C09 (K9.1)."""
ASSUMPTIONS = ['jcmp/h_laws: storage kinds null, bool, int64, uint64, empty_object, float64 (non-NaN), half_float (non-NaN), short_str <= 3 chars (untagged), short_str tagged bigint holding one digit; held directly (values behind const_json_ref/json_ref: CBMC does not fold the storage kind through the stored pointer, the recursive unwrapping then explodes - stated outside the bound)',
               'jcmp: transitivity of == across int64/double is not part of the property and not asserted']
STUB_NOTES = ['strtod: exact model for one-digit strings (number-tagged text)', 'values are built by the real constructors']
KN = ['null', 'bool', 'int64', 'uint64', 'empty_object', 'float64', 'half_float', 'short_str', 'bigint_str']
def jobs(tier):
    J = []
    for a in range(9):
        for b in range(9):
            if 7 in (a, b) and tier != 'thorough':
                continue   # untagged short strings: the string comparison / number conversion paths need > 5 min per pair (thorough tier)
            J.append(dict(id='laws_%s_%s' % (KN[a], KN[b]), harness='h_laws', props=['C09'], unwind=6, defs=dict(KSET_A=a, RSET_A=0, RBMAX=0, KSET_B=b), timeout=1500 if 7 in (a, b) else 300, mem_gb=6,
                          desc='compare laws: antisymmetry, reflexivity, ==/!=/</<=/>/>= agree with compare; no unreachable/assert',
                          bound='lhs %s x rhs %s (values held directly, not behind json_ref), all 64-bit payloads, strings <= 3 chars' % (KN[a], KN[b])))
    for sk, skn in ((2, 'int64'), (3, 'uint64')):
        for tn, bits, sg in (('i8', 8, 1), ('i16', 16, 1), ('i32', 32, 1), ('i64', 64, 1), ('u8', 8, 0), ('u16', 16, 0), ('u32', 32, 0), ('u64', 64, 0)):
            J.append(dict(id='isas_%s_%s' % (skn, tn), harness='h_isas', props=['C09'], unwind=6, defs=dict(SKIND=sk, TNAME=tn, TBITS=bits, TSIGNED=sg), timeout=300, mem_gb=6,
                          desc='is<%s>() on a %s-stored json is true exactly when the stored number is representable, and then as<%s>() returns it exactly' % (tn, skn, tn), bound='all 2^64 stored values'))
    return J
