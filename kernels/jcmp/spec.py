"""kernel jcmp: the REAL jsoncons::json compare()/==/!=/</<=/>/>= on scalar storage kinds, short strings and (const_)json_ref to them.  Serves C09 (K9.1)."""
ASSUMPTIONS = ['jcmp/h_laws: storage kinds null, bool, int64, uint64, empty_object, float64 (non-NaN), half_float (non-NaN), short_str <= 3 chars (untagged), short_str tagged bigint holding one digit; held directly (values behind const_json_ref/json_ref: CBMC does not fold the storage kind through the stored pointer, the recursive unwrapping then explodes - stated outside the bound)',
               'jcmp: transitivity of == across int64/double is not part of the property and not asserted']
STUB_NOTES = ['strtod: exact model for one-digit strings (number-tagged text)', 'values are built by the real constructors']
def jobs(tier):
    J = []
    for k in range(9):
        J.append(dict(id='laws_k%d' % k, harness='h_laws', props=['C09'], unwind=2, defs=dict(KSET_A=k, RSET_A=0, RBMAX=0), timeout=600, mem_gb=4,
                      desc='compare laws: antisymmetry, reflexivity, ==/!=/</<=/>/>= agree with compare; no unreachable/assert',
                      bound='lhs kind %d x all 9 rhs kinds (values held directly, not behind json_ref), all 64-bit payloads, strings <= 3 chars' % k))
    return J
