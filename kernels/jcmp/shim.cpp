// kernel "jcmp": basic_json::compare and the relational operators on the REAL jsoncons::json, for scalar storage kinds and references to them.
// Values are built by the real constructors from a small descriptor; the kind code reaches the shim as a constant (one call site per pair).
#include "vshim.h"
#include <jsoncons/json.hpp>
using namespace jsoncons;
// kind: 0 null 1 bool 2 int64 3 uint64 4 empty_object 5 float64 6 half_float 7 short_str (no tag) 8 short_str tagged bigint
static inline void mk(json* out, unsigned kind, unsigned long long bits, const char* s, unsigned len) {
    switch (kind) {
        case 0: new (out) json(json::null()); break;
        case 1: new (out) json((bits & 1) != 0); break;
        case 2: new (out) json((int64_t)bits); break;
        case 3: new (out) json((uint64_t)bits); break;
        case 4: new (out) json(); break;
        case 5: { double d; __builtin_memcpy(&d, &bits, 8); new (out) json(d); break; }
        case 6: new (out) json(half_arg, (uint16_t)bits); break;
        case 7: new (out) json(jsoncons::string_view(s, len), semantic_tag::none); break;
        default: new (out) json(jsoncons::string_view(s, len), semantic_tag::bigint); break;
    }
}
// ref: 0 = the value itself, 1 = const_json_ref to it, 2 = json_ref to it
KFN void k_cmp(unsigned ka, unsigned ra, unsigned long long ba, const char* sa, unsigned la,
               unsigned kb, unsigned rb, unsigned long long bb, const char* sb, unsigned lb, int* out) {
    RAWSTORE(json, a0); RAWSTORE(json, b0); RAWSTORE(json, a1); RAWSTORE(json, b1); RAWSTORE(json, a2);
    json* A0 = (json*)a0; json* B0 = (json*)b0; json* A1 = (json*)a1; json* B1 = (json*)b1; json* A2 = (json*)a2;
    mk(A0, ka, ba, sa, la); mk(B0, kb, bb, sb, lb); mk(A2, ka, ba, sa, la);
    json* A = A0; json* B = B0;
    if (ra == 1) { new (A1) json(const_json_ptr_arg, A0); A = A1; } else if (ra == 2) { new (A1) json(json_ptr_arg, A0); A = A1; }
    if (rb == 1) { new (B1) json(const_json_ptr_arg, B0); B = B1; } else if (rb == 2) { new (B1) json(json_ptr_arg, B0); B = B1; }
    out[0] = A->compare(*B); out[1] = B->compare(*A);
    out[2] = (*A == *B); out[3] = (*A != *B); out[4] = (*A < *B); out[5] = (*A <= *B); out[6] = (*A > *B); out[7] = (*A >= *B);
    out[8] = A->compare(*A2);   // an equal value built independently
}

// is<T>() / as<T>() on an integer-stored json: KIND 2 (int64) or 3 (uint64) is a constant per call site, T per entry point
template <class T> static inline void isas(unsigned kind, unsigned long long bits, int* is, unsigned long long* as) {
    RAWSTORE(json, a0); json* A = (json*)a0;
    if (kind == 2) new (A) json((int64_t)bits); else new (A) json((uint64_t)bits);
    *is = A->is<T>() ? 1 : 0;
    *as = 0; if (*is) *as = (unsigned long long)(long long)A->as<T>();   // sign-extended for signed T, zero-extended for unsigned T
}
#define ISAS(NAME, T) KFN void k_isas_##NAME(unsigned kind, unsigned long long bits, int* is, unsigned long long* as) { if (kind == 2) isas<T>(2, bits, is, as); else isas<T>(3, bits, is, as); }
ISAS(i8, int8_t) ISAS(i16, int16_t) ISAS(i32, int32_t) ISAS(i64, int64_t) ISAS(u8, uint8_t) ISAS(u16, uint16_t) ISAS(u32, uint32_t) ISAS(u64, uint64_t)
