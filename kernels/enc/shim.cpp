// kernel "enc": the REAL streaming encoders (compact JSON, pretty JSON, CBOR, MessagePack, UBJSON) built by their REAL constructors over a fixed-array sink
// and driven by an event sequence through their visit_* members.  nesting_depth_ / max depth are preset so that the depth-limit sites can be entered from any depth.
#include "vshim.h"
#include <jsoncons/json_encoder.hpp>
#include <jsoncons_ext/cbor/cbor_encoder.hpp>
#include <jsoncons_ext/msgpack/msgpack_encoder.hpp>
#include <jsoncons_ext/ubjson/ubjson_encoder.hpp>
using namespace jsoncons;
struct eev { unsigned kind; unsigned tag; unsigned long long val; unsigned len; unsigned char s[4]; };
struct eres { int ec; unsigned ec_at; int depth; unsigned long n; unsigned long stack; };
enum { E_BEGIN_ARRAY = 0, E_BEGIN_ARRAY_LEN, E_END_ARRAY, E_BEGIN_OBJECT, E_BEGIN_OBJECT_LEN, E_END_OBJECT, E_KEY, E_UINT, E_INT, E_NULL, E_BOOL, E_STRING, E_DOUBLE, E_BYTES, E_HALF };
// MASK: compile-time set of event kinds this entry point can deliver (other kinds are not compiled in, so the solver never has to explore e.g. the double formatter for a depth-limit query)
#define M_CONTAINERS 0x3Fu
#define M_NODOUBLE 0x2FFFu
#define M_ALL 0x7FFFu
template <unsigned MASK, bool HASLEN, class E> static inline void drive(E& e, const eev* ev, unsigned nev, eres* r) {
    std::error_code ec; ser_context ctx; unsigned i = 0;
    for (; i < nev; ++i) {
        const eev& x = ev[i]; const semantic_tag t = (semantic_tag)x.tag;
        if (!((MASK >> x.kind) & 1u)) continue;
        switch (x.kind) {
            case E_BEGIN_ARRAY: if constexpr ((MASK >> E_BEGIN_ARRAY) & 1u) { e.E::visit_begin_array(t, ctx, ec); } break;
            case E_BEGIN_ARRAY_LEN: if constexpr ((MASK >> E_BEGIN_ARRAY_LEN) & 1u) { if constexpr (HASLEN) e.E::visit_begin_array((std::size_t)x.val, t, ctx, ec); else e.E::visit_begin_array(t, ctx, ec); /* basic_json_visitor's default forwards to the length-less overload */ } break;
            case E_END_ARRAY: if constexpr ((MASK >> E_END_ARRAY) & 1u) { e.E::visit_end_array(ctx, ec); } break;
            case E_BEGIN_OBJECT: if constexpr ((MASK >> E_BEGIN_OBJECT) & 1u) { e.E::visit_begin_object(t, ctx, ec); } break;
            case E_BEGIN_OBJECT_LEN: if constexpr ((MASK >> E_BEGIN_OBJECT_LEN) & 1u) { if constexpr (HASLEN) e.E::visit_begin_object((std::size_t)x.val, t, ctx, ec); else e.E::visit_begin_object(t, ctx, ec); } break;
            case E_END_OBJECT: if constexpr ((MASK >> E_END_OBJECT) & 1u) { e.E::visit_end_object(ctx, ec); } break;
            case E_KEY: if constexpr ((MASK >> E_KEY) & 1u) { e.E::visit_key(jsoncons::string_view((const char*)x.s, x.len), ctx, ec); } break;
            case E_UINT: if constexpr ((MASK >> E_UINT) & 1u) { e.E::visit_uint64(x.val, t, ctx, ec); } break;
            case E_INT: if constexpr ((MASK >> E_INT) & 1u) { e.E::visit_int64((int64_t)x.val, t, ctx, ec); } break;
            case E_NULL: if constexpr ((MASK >> E_NULL) & 1u) { e.E::visit_null(t, ctx, ec); } break;
            case E_BOOL: if constexpr ((MASK >> E_BOOL) & 1u) { e.E::visit_bool(x.val != 0, t, ctx, ec); } break;
            case E_STRING: if constexpr ((MASK >> E_STRING) & 1u) { e.E::visit_string(jsoncons::string_view((const char*)x.s, x.len), t, ctx, ec); } break;
            case E_DOUBLE: if constexpr ((MASK >> E_DOUBLE) & 1u) { double d; __builtin_memcpy(&d, &x.val, 8); e.E::visit_double(d, t, ctx, ec); } break;
            case E_BYTES: if constexpr ((MASK >> E_BYTES) & 1u) { e.E::visit_byte_string(byte_string_view(x.s, x.len), t, ctx, ec); } break;
            case E_HALF: if constexpr ((MASK >> E_HALF) & 1u) { e.E::visit_half((uint16_t)x.val, t, ctx, ec); } break;
            default: break;
        }
        if (ec) break;
    }
    r->ec = ec ? ec.value() : 0; r->ec_at = i; r->depth = e.nesting_depth_; r->n = e.sink_.n; r->stack = e.stack_.size();
}
using cjson_t = basic_compact_json_encoder<char, fsink>;
using pjson_t = basic_json_encoder<char, fsink>;
using cbor_t = cbor::basic_cbor_encoder<bsink>;
using msgpack_t = msgpack::basic_msgpack_encoder<bsink>;
using ubjson_t = ubjson::basic_ubjson_encoder<bsink>;
#define CJ_OPTS_NONE
#define CJ_OPTS_REAL new (&e->options_) basic_json_encode_options<char>(); new (&e->fp_) jsoncons::write_double(float_chars_format::general, 0);
#define ENTRIES(PFX, MASK, CJ_OPTS) \
KFN void PFX##_cjson(int d0, int maxd, const eev* ev, unsigned nev, char* buf, unsigned long cap, eres* r) { \
    /* raw encoder (DESIGN 2.1): only what the visit functions read is initialised - sink_, options_ (default-constructed in place), fp_, stack_ */ \
    rawobj_u<cjson_t> e_u; cjson_t* e = &e_u.obj; /* members not initialised below stay nondeterministic: the verdict holds for any value of them */ new (&e->sink_) fsink{buf, 0, cap}; CJ_OPTS \
    new (&e->stack_) std::vector<cjson_t::encoding_context>(); e->stack_.reserve(4); e->nesting_depth_ = d0; e->options_.max_nesting_depth_ = maxd; drive<MASK, false>(*e, ev, nev, r); } \
KFN void PFX##_pjson(int d0, int maxd, unsigned popts, const eev* ev, unsigned nev, char* buf, unsigned long cap, eres* r) { \
    json_options o; mkopts(o, popts); \
    RAWCTOR(pjson_t, raw); pjson_t* e = new (raw) pjson_t(fsink{buf, 0, cap}, o); e->stack_.reserve(4); e->nesting_depth_ = d0; e->options_.max_nesting_depth_ = maxd; drive<MASK, false>(*e, ev, nev, r); } \
KFN void PFX##_cbor(int d0, int maxd, const eev* ev, unsigned nev, unsigned char* buf, unsigned long cap, eres* r) { \
    RAWCTOR(cbor_t, raw); cbor_t* e = new (raw) cbor_t(bsink{buf, 0, cap}); e->stack_.reserve(4); e->nesting_depth_ = d0; e->max_nesting_depth_ = maxd; drive<MASK, true>(*e, ev, nev, r); } \
KFN void PFX##_msgpack(int d0, int maxd, const eev* ev, unsigned nev, unsigned char* buf, unsigned long cap, eres* r) { \
    RAWCTOR(msgpack_t, raw); msgpack_t* e = new (raw) msgpack_t(bsink{buf, 0, cap}); e->stack_.reserve(4); e->nesting_depth_ = d0; e->max_nesting_depth_ = maxd; drive<MASK, true>(*e, ev, nev, r); } \
KFN void PFX##_ubjson(int d0, int maxd, const eev* ev, unsigned nev, unsigned char* buf, unsigned long cap, eres* r) { \
    RAWCTOR(ubjson_t, raw); ubjson_t* e = new (raw) ubjson_t(bsink{buf, 0, cap}); e->stack_.reserve(4); e->nesting_depth_ = d0; e->max_nesting_depth_ = maxd; drive<MASK, true>(*e, ev, nev, r); }
// popts: bit0 spaces_around_comma(after) bit1 spaces_around_colon(after) ; bits 2-3 indent size ; bits 4-5 object_array_line_splits ; bits 6-7 array_array ; bits 8-9 array_object ; bits 10-11 object_object ; bits 12-15 line_length_limit
static inline void mkopts(json_options& o, unsigned popts) {
    o.spaces_around_comma((popts & 1) ? spaces_option::space_after : spaces_option::no_spaces);
    o.spaces_around_colon((popts & 2) ? spaces_option::space_after : spaces_option::no_spaces);
    o.indent_size((popts >> 2) & 3);
    o.object_array_line_splits((line_split_kind)(((popts >> 4) & 3) % 3));
    o.array_array_line_splits((line_split_kind)(((popts >> 6) & 3) % 3));
    o.array_object_line_splits((line_split_kind)(((popts >> 8) & 3) % 3));
    o.object_object_line_splits((line_split_kind)(((popts >> 10) & 3) % 3));
    if ((popts >> 12) & 15) o.line_length_limit((popts >> 12) & 15);
}
ENTRIES(k_lim, M_CONTAINERS, CJ_OPTS_REAL)   // options_ has a virtual base: it must be really constructed (in place)
ENTRIES(k_enc, M_NODOUBLE, CJ_OPTS_REAL)
// compact JSON entry points specialised at COMPILE TIME to the two value kinds of a short sequence (the solver never sees the other visit functions)
#define CJSEQ(NAME, M) KFN void NAME(const eev* ev, unsigned nev, char* buf, unsigned long cap, eres* r) { rawobj_u<cjson_t> e_u; cjson_t* e = &e_u.obj; new (&e->sink_) fsink{buf, 0, cap}; CJ_OPTS_REAL \
    new (&e->stack_) std::vector<cjson_t::encoding_context>(); e->stack_.reserve(4); e->nesting_depth_ = 0; drive<M, false>(*e, ev, nev, r); }
CJSEQ(k_cj_arr_null_null, 0x205u)
CJSEQ(k_cj_arr_null_bool, 0x605u)
CJSEQ(k_cj_arr_null_uint, 0x285u)
CJSEQ(k_cj_arr_null_int, 0x305u)
CJSEQ(k_cj_arr_null_string, 0xa05u)
CJSEQ(k_cj_arr_bool_bool, 0x405u)
CJSEQ(k_cj_arr_bool_uint, 0x485u)
CJSEQ(k_cj_arr_bool_int, 0x505u)
CJSEQ(k_cj_arr_bool_string, 0xc05u)
CJSEQ(k_cj_arr_uint_uint, 0x85u)
CJSEQ(k_cj_arr_uint_int, 0x185u)
CJSEQ(k_cj_arr_uint_string, 0x885u)
CJSEQ(k_cj_arr_int_int, 0x105u)
CJSEQ(k_cj_arr_int_string, 0x905u)
CJSEQ(k_cj_arr_string_string, 0x805u)
CJSEQ(k_cj_obj_null, 0x268u)
CJSEQ(k_cj_obj_bool, 0x468u)
CJSEQ(k_cj_obj_uint, 0xe8u)
CJSEQ(k_cj_obj_int, 0x168u)
CJSEQ(k_cj_obj_string, 0x868u)
// error-code constants of the real enums (so the harness never hard-codes enumerator values)
KFN int k_enc_errc(unsigned fmt, unsigned which) {
    switch (fmt) {
        case 0: case 1: return which == 0 ? (int)json_errc::max_nesting_depth_exceeded : -1;
        case 2: return which == 0 ? (int)cbor::cbor_errc::max_nesting_depth_exceeded : which == 1 ? (int)cbor::cbor_errc::too_few_items : which == 2 ? (int)cbor::cbor_errc::too_many_items : -1;
        case 3: return which == 0 ? (int)msgpack::msgpack_errc::max_nesting_depth_exceeded : which == 1 ? (int)msgpack::msgpack_errc::too_few_items : which == 2 ? (int)msgpack::msgpack_errc::too_many_items : which == 3 ? (int)msgpack::msgpack_errc::array_length_required : which == 4 ? (int)msgpack::msgpack_errc::object_length_required : -1;
        case 4: return which == 0 ? (int)ubjson::ubjson_errc::max_nesting_depth_exceeded : which == 1 ? (int)ubjson::ubjson_errc::too_few_items : which == 2 ? (int)ubjson::ubjson_errc::too_many_items : -1;
    }
    return -1;
}
