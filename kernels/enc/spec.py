"""kernel enc: the REAL streaming encoders (compact JSON, pretty JSON, CBOR, MessagePack, UBJSON), built by their real constructors over a fixed-array sink
and driven by event sequences.  Serves C10 (K10.1 encoder limit sites), C08 (K8.1/K8.2), C01 (K1.4), C05."""
import os
ASSUMPTIONS = ['enc/h_limit: 0 <= depth <= limit (states reachable without a prior error); any int limit; declared length any uint64 (0 when the container is also closed); the begin kind is concrete per job',
               'enc/*: the container stack is pre-reserved (4 entries) right after the real constructor ran, so emplace_back stays on the in-capacity path (vector reallocation is libstdc++ code, outside the claim)']
STUB_NOTES = ['fsink/bsink fixed-array sinks (64 bytes, overflow counted not stored)', 'operator new -> fresh object (allocation meter)']
TRAP = r'_M_realloc_insert'   # container stacks are pre-reserved; the reallocation path is cut with an assertion (memmove of a symbolic size explodes in CBMC)
FMTS = ['cjson', 'pjson', 'cbor', 'msgpack', 'ubjson']
KINDS = {0: 'begin_array', 1: 'begin_array_len', 3: 'begin_object', 4: 'begin_object_len'}
def jobs(tier):
    J = []
    for f, name in enumerate(FMTS):
        if name == 'pjson' and tier != 'thorough':
            continue   # the pretty encoder needs its real constructor (string_view members): > 10 min per job, thorough tier only
        for k, kn in KINDS.items():
            for c in (0, 1):
                J.append(dict(id='limit_%s_%s_%s' % (name, kn, 'close' if c else 'open'), harness='h_limit', props=['C10'], unwind=10, defs=dict(FMT=f, LIMIT=1, KIND=k, CLOSE=c), timeout=1200 if name == 'pjson' else 300, mem_gb=6 if name == 'pjson' else 4,
                              desc='%s encoder visit_%s: refused with max_nesting_depth_exceeded iff depth+1 > max_nesting_depth, else depth+1%s' % (name, kn, '; visit_end_* restores the depth' if c else ''),
                              bound='any depth 0..limit, any limit (int), any declared length' + (' (0 when closed)' if c else '')))
    for f, name in ((2, 'cbor'), (3, 'msgpack'), (4, 'ubjson')):
        for o in (0, 1):
            J.append(dict(id='head_%s_%s' % (name, 'object' if o else 'array'), harness='h_head', props=['C08', 'C06'], unwind=10, defs=dict(FMT=f, OBJ=o), timeout=300, mem_gb=4,
                          desc='%s encoder begin_%s(length): error, or a well-formed head whose decoded length equals the declared length' % (name, 'object' if o else 'array'), bound='any declared length (uint64)'))
    for f, name in ((2, 'cbor'), (3, 'msgpack'), (4, 'ubjson')):
        for sk, skn in ((7, 'uint64'), (8, 'int64'), (9, 'null'), (10, 'bool')):
            if name == 'ubjson' and skn == 'uint64':   # values above INT64_MAX are written as decimal text (H): windows instead of the full range
                for wn, lo, hi in (('le_i64max', '0ULL', '9223372036854775807ULL'), ('above_i64max', '9223372036854775808ULL', '9223372036854775907ULL'), ('top', '18446744073709551516ULL', '18446744073709551615ULL')):
                    J.append(dict(id='scalar_ubjson_uint64_' + wn, harness='h_scalar', props=['C06', 'C08'], unwind=22, defs=dict(FMT=f, SK=sk, VLO=lo, VHI=hi), timeout=600, mem_gb=4,
                                  desc='ubjson encoder visit_uint64: exactly one well-formed item that reads back to the same value', bound='values in [%s, %s]' % (lo, hi)))
                continue
            J.append(dict(id='scalar_%s_%s' % (name, skn), harness='h_scalar', props=['C06', 'C08'], unwind=22, defs=dict(FMT=f, SK=sk), timeout=300, mem_gb=4,
                          desc='%s encoder visit_%s: the bytes are exactly one well-formed item that an independent reference decoder reads back to the same value (or the encoder refuses)' % (name, skn), bound='all 2^64 values' if sk in (7, 8) else 'all values'))
    EK = {9: 'null', 10: 'bool', 7: 'uint', 8: 'int', 11: 'string'}
    for k0, n0 in EK.items():
        for k1, n1 in EK.items():
            if 'string' in (n0, n1) and not os.environ.get('VERIF_EXPERIMENTAL'):
                continue   # string values: need > 9 GB address space (solver died under the runner's limit and the run was misread as failing, DESIGN 6.3); decided by hand with
                           # 12 GB (cjson_obj_null: 0 of 2803 fail) but not re-validated as a family in time: not run by registered checks
                           # (escaping itself is decided by text/escape_n*, the separators and literals by the non-string sequences)
            J.append(dict(id='cjson_arr_%s_%s' % (n0, n1), harness='h_cjson_seq', props=['C08', 'C01'], unwind=26, defs=dict(FMT=0, EK0=k0, EK1=k1, SEQOBJ=0, KSEQ='k_cj_arr_%s_%s' % ((n0, n1) if list(EK).index(k0) <= list(EK).index(k1) else (n1, n0))), timeout=1500 if 'string' in (n0, n1) else 300, mem_gb=6,
                          desc='compact JSON encoder on [%s,%s]: output text equals the independent RFC 8259 rendering (separators, brackets, literals, integers)' % (n0, n1), bound='uint<1000, |int|<1000, 2-char printable strings'))
        if not os.environ.get('VERIF_EXPERIMENTAL'):
            continue   # member names go through the same string path (see above): not run by registered checks
        J.append(dict(id='cjson_obj_%s' % n0, harness='h_cjson_seq', props=['C08', 'C01'], unwind=26, defs=dict(FMT=0, EK0=9, EK1=k0, SEQOBJ=1, KSEQ='k_cj_obj_%s' % n0), timeout=1500, mem_gb=6,
                      desc='compact JSON encoder on {"ab":%s}: output text equals the independent RFC 8259 rendering' % n0, bound='2-char printable key; uint<1000, |int|<1000, 2-char printable strings'))
    return J
