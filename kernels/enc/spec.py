"""kernel enc: the REAL streaming encoders (compact JSON, pretty JSON, CBOR, MessagePack, UBJSON), built by their real constructors over a fixed-array sink
and driven by event sequences.  Serves C10 (K10.1 encoder limit sites), C08 (K8.1/K8.2), C01 (K1.4), C05."""
ASSUMPTIONS = ['enc/h_limit: 0 <= depth <= limit (states reachable without a prior error); any int limit; declared length any uint64 (0 when the container is also closed); the begin kind is concrete per job',
               'enc/*: the container stack is pre-reserved (4 entries) right after the real constructor ran, so emplace_back stays on the in-capacity path (vector reallocation is libstdc++ code, outside the claim)']
STUB_NOTES = ['fsink/bsink fixed-array sinks (64 bytes, overflow counted not stored)', 'operator new -> fresh object (allocation meter)']
TRAP = r'_M_realloc_insert'   # container stacks are pre-reserved; the reallocation path is cut with an assertion (memmove of a symbolic size explodes in CBMC)
FMTS = ['cjson', 'pjson', 'cbor', 'msgpack', 'ubjson']
KINDS = {0: 'begin_array', 1: 'begin_array_len', 3: 'begin_object', 4: 'begin_object_len'}
def jobs(tier):
    J = []
    for f, name in enumerate(FMTS):
        for k, kn in KINDS.items():
            for c in (0, 1):
                J.append(dict(id='limit_%s_%s_%s' % (name, kn, 'close' if c else 'open'), harness='h_limit', props=['C10'], unwind=10, defs=dict(FMT=f, LIMIT=1, KIND=k, CLOSE=c), timeout=1200 if name == 'pjson' else 300, mem_gb=6 if name == 'pjson' else 4,
                              desc='%s encoder visit_%s: refused with max_nesting_depth_exceeded iff depth+1 > max_nesting_depth, else depth+1%s' % (name, kn, '; visit_end_* restores the depth' if c else ''),
                              bound='any depth 0..limit, any limit (int), any declared length' + (' (0 when closed)' if c else '')))
    return J
