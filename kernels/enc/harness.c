/* harnesses for kernel "enc": real streaming encoders driven by event sequences.
   h_limit (C10 K10.1): one step from ANY depth d0 <= limit m: begin_* fails with max_nesting_depth_exceeded iff d0+1 > m, else depth d0+1; matching end_* restores d0. */
#include "kernel.c"
#include "vharness.h"
#define NEED_THROWS
#include "vmodels.h"
#ifndef FMT
#define FMT 0
#endif
#define CAP 64
#ifdef LIMIT
#define RUN(f) k_lim_##f
#else
#define RUN(f) k_enc_##f
#endif
static void run_enc(int d0, int m, unsigned popts, struct S_struct_2eeev* ev, unsigned nev, u8* buf, struct S_struct_2eeres* r) {
#if FMT == 0
  RUN(cjson)(d0, m, ev, nev, buf, CAP, r);
#elif FMT == 1
  RUN(pjson)(d0, m, popts, ev, nev, buf, CAP, r);
#elif FMT == 2
  RUN(cbor)(d0, m, ev, nev, buf, CAP, r);
#elif FMT == 3
  RUN(msgpack)(d0, m, ev, nev, buf, CAP, r);
#else
  RUN(ubjson)(d0, m, ev, nev, buf, CAP, r);
#endif
}
enum { E_BEGIN_ARRAY = 0, E_BEGIN_ARRAY_LEN, E_END_ARRAY, E_BEGIN_OBJECT, E_BEGIN_OBJECT_LEN, E_END_OBJECT, E_KEY, E_UINT, E_INT, E_NULL, E_BOOL, E_STRING, E_DOUBLE, E_BYTES, E_HALF };
INPUT(s32, IN_d0) INPUT(s32, IN_m) INPUT(u32, IN_kind) INPUT(u64, IN_len) INPUT(u32, IN_popts) INPUT(u32, IN_close)
HARNESS(h_limit) {
  HAVOC(IN_d0); HAVOC(IN_m); HAVOC(IN_kind); HAVOC(IN_len); HAVOC(IN_popts); HAVOC(IN_close);
  ASSUME(IN_d0 >= 0 && IN_d0 <= IN_m);                       /* reachable depths: the limit was respected so far */
#ifdef KIND
  IN_kind = KIND;   /* concrete per job: keeps each query small */
#endif
  ASSUME(IN_kind == E_BEGIN_ARRAY || IN_kind == E_BEGIN_ARRAY_LEN || IN_kind == E_BEGIN_OBJECT || IN_kind == E_BEGIN_OBJECT_LEN);
#ifdef CLOSE
  IN_close = CLOSE;
#endif
  ASSUME(IN_close <= 1); ASSUME(IN_popts < (1u << 16));
  if (IN_close) ASSUME(IN_len == 0);
  struct S_struct_2eeev ev[2]; memset(ev, 0, sizeof ev);
  ev[0].f0 = IN_kind; ev[0].f2 = IN_len;
  ev[1].f0 = (IN_kind <= E_BEGIN_ARRAY_LEN) ? E_END_ARRAY : E_END_OBJECT;
  u8* buf = malloc(CAP); ASSUME(buf != 0);
  struct S_struct_2eeres r; memset(&r, 0, sizeof r);
  IRC_THROW_ALLOWED = 1;   /* a json_exception (ser_error) is a documented refusal, e.g. UBJSON lengths beyond int64 */
  run_enc(IN_d0, IN_m, IN_popts, ev, IN_close ? 2 : 1, buf, &r);
  int emax = k_enc_errc(FMT, 0);
  int indef_refused = (FMT == 3) && (IN_kind == E_BEGIN_ARRAY || IN_kind == E_BEGIN_OBJECT);   /* MessagePack has no indefinite containers: documented error */
  if (indef_refused) { WIT(1); P(r.f0 != 0 && r.f3 == 0, "msgpack: container without length refused (array/object_length_required), nothing written"); return; }
  if ((s64)IN_d0 + 1 > (s64)IN_m) {
    P(r.f0 != 0 && r.f1 == 0, "opening a container beyond max_nesting_depth is refused");
    /* which error code is reported is not part of the property (today: max_nesting_depth_exceeded, or too_many_items first for an unrepresentable MessagePack length) */
    P(r.f3 == 0 && r.f4 == 0, "a refused container writes nothing and pushes no state");
  } else {
    P(r.f0 != emax, "a container exactly at or below the limit is accepted");
    if (r.f0 == 0 && !IN_close) P(r.f2 == IN_d0 + 1 && r.f4 == 1, "accepted container: depth+1 and one stack entry");
    if (r.f0 == 0 && IN_close) P(r.f2 == IN_d0 && r.f4 == 0, "closing the container restores the depth and pops the stack entry");
    if (IN_close) P(r.f0 == 0, "an empty container (declared length 0 or indefinite) opens and closes without error");
  }
  WIT(r.f0 == 0 && IN_d0 > 1000);
}

/* ---------------- C08 / C06: container heads of the binary encoders denote exactly (kind, declared length), or the encoder refuses ---------------- */
#ifndef OBJ
#define OBJ 0
#endif
HARNESS(h_head) {
  HAVOC(IN_len);
  struct S_struct_2eeev ev[1]; memset(ev, 0, sizeof ev);
  ev[0].f0 = OBJ ? E_BEGIN_OBJECT_LEN : E_BEGIN_ARRAY_LEN; ev[0].f2 = IN_len;
  u8* buf = malloc(CAP); ASSUME(buf != 0);
  struct S_struct_2eeres r; memset(&r, 0, sizeof r);
  IRC_THROW_ALLOWED = 1;
  run_enc(0, 1024, 0, ev, 1, buf, &r);
  if (r.f0 != 0) { WIT(1); return; }                      /* refused with an error code: allowed */
  u64 n = r.f3; P(n >= 1 && n <= 11, "a container head is 1..11 bytes"); ASSUME(n >= 1 && n <= 11);
  u64 dec = 0; int ok = 0; u64 used = 0;
#if FMT == 2   /* RFC 8949: major 4 (array) / 5 (map), argument in the additional information */
  { u8 ib = buf[0]; u8 info = ib & 0x1f; ok = (ib >> 5) == (OBJ ? 5 : 4);
    if (info < 24) { dec = info; used = 1; } else if (info <= 27) { unsigned w = 1u << (info - 24); used = 1 + w; for (unsigned i = 0; i < 8; i++) if (i < w) dec = (dec << 8) | buf[1 + i]; } else ok = 0; }
#elif FMT == 3 /* MessagePack: fixarray 1001xxxx, array16 0xdc, array32 0xdd; fixmap 1000xxxx, map16 0xde, map32 0xdf */
  { u8 b0 = buf[0];
    if ((b0 & 0xf0) == (OBJ ? 0x80 : 0x90)) { dec = b0 & 0x0f; used = 1; ok = 1; }
    else if (b0 == (OBJ ? 0xde : 0xdc)) { dec = ((u64)buf[1] << 8) | buf[2]; used = 3; ok = 1; }
    else if (b0 == (OBJ ? 0xdf : 0xdd)) { dec = ((u64)buf[1] << 24) | ((u64)buf[2] << 16) | ((u64)buf[3] << 8) | buf[4]; used = 5; ok = 1; } }
#elif FMT == 4 /* UBJSON: '[' or '{', '#', then a length as i/U/I/l/L big-endian SIGNED (U unsigned), which must be non-negative */
  { ok = buf[0] == (OBJ ? '{' : '[') && buf[1] == '#'; u8 m = buf[2]; s64 v = -1;
    if (m == 'U') { v = buf[3]; used = 4; } else if (m == 'i') { v = (s8)buf[3]; used = 4; } else if (m == 'I') { v = (s16)(((u16)buf[3] << 8) | buf[4]); used = 5; }
    else if (m == 'l') { v = (s32)(((u32)buf[3] << 24) | ((u32)buf[4] << 16) | ((u32)buf[5] << 8) | buf[6]); used = 7; }
    else if (m == 'L') { u64 x = 0; for (int i = 0; i < 8; i++) x = (x << 8) | buf[3 + i]; v = (s64)x; used = 11; } else ok = 0;
    if (v < 0) ok = 0; dec = (u64)v; }
#endif
  P(ok && used == n && dec == IN_len, "the bytes written for begin_array/begin_object(length) are a well-formed head of that kind whose decoded length equals the declared length (never truncated, wrapped or missing)");
  WIT(IN_len > 70000);
}

/* ---------------- C08 K8.1: compact JSON encoder on short grammatical event sequences; the expected text is built by an independent reference ---------------- */
INPUT_ARR(u32, IN_ek, 2) INPUT_ARR(u64, IN_ev, 2) INPUT_ARR(u8, IN_es, 4) INPUT_ARR(u32, IN_etag, 2) INPUT(u32, IN_obj)
#define TAG_NONE 0
static unsigned ref_scalar(u8* o, unsigned p, u32 k, u64 v, const u8* s, u32 tag) {
  if (k == E_NULL) { o[p++] = 'n'; o[p++] = 'u'; o[p++] = 'l'; o[p++] = 'l'; }
  else if (k == E_BOOL) { if (v) { o[p++] = 't'; o[p++] = 'r'; o[p++] = 'u'; o[p++] = 'e'; } else { o[p++] = 'f'; o[p++] = 'a'; o[p++] = 'l'; o[p++] = 's'; o[p++] = 'e'; } }
  else if (k == E_UINT || k == E_INT) { u64 a = v; if (k == E_INT && (s64)v < 0) { o[p++] = '-'; a = (u64)(-(s64)v); }
    if (a >= 100) o[p++] = '0' + (a / 100) % 10; if (a >= 10) o[p++] = '0' + (a / 10) % 10; o[p++] = '0' + a % 10; }
  else { o[p++] = '"'; o[p++] = s[0]; o[p++] = s[1]; o[p++] = '"'; }
  return p;
}
HARNESS(h_cjson_seq) {
  HAVOC_ARR(IN_ek, 2); HAVOC_ARR(IN_ev, 2); HAVOC_ARR(IN_es, 4); HAVOC(IN_obj);
#ifdef EK0
  IN_ek[0] = EK0; IN_ek[1] = EK1; IN_obj = SEQOBJ;   /* event kinds concrete per job */
#endif
  ASSUME(IN_obj <= 1);
  struct S_struct_2eeev ev[5]; memset(ev, 0, sizeof ev); unsigned ne = 0;
  for (int i = 0; i < 2; i++) { u32 k = IN_ek[i]; ASSUME(k == E_NULL || k == E_BOOL || k == E_UINT || k == E_INT || k == E_STRING);
    if (k == E_UINT) ASSUME(IN_ev[i] < 1000); if (k == E_INT) ASSUME((s64)IN_ev[i] > -1000 && (s64)IN_ev[i] < 1000); if (k == E_BOOL) ASSUME(IN_ev[i] <= 1);
    ASSUME(IN_es[2 * i] >= 0x20 && IN_es[2 * i] < 0x7f && IN_es[2 * i] != '"' && IN_es[2 * i] != '\\' && IN_es[2 * i + 1] >= 0x20 && IN_es[2 * i + 1] < 0x7f && IN_es[2 * i + 1] != '"' && IN_es[2 * i + 1] != '\\'); }
  u8 exp[40]; unsigned p = 0;
  if (IN_obj) { /* {"ab":v} */
    ev[ne].f0 = E_BEGIN_OBJECT; ne++; ev[ne].f0 = E_KEY; ev[ne].f3 = 2; ev[ne].f4.a[0] = IN_es[0]; ev[ne].f4.a[1] = IN_es[1]; ne++;
    ev[ne].f0 = IN_ek[1]; ev[ne].f2 = IN_ev[1]; ev[ne].f3 = 2; ev[ne].f4.a[0] = IN_es[2]; ev[ne].f4.a[1] = IN_es[3]; ne++; ev[ne].f0 = E_END_OBJECT; ne++;
    exp[p++] = '{'; exp[p++] = '"'; exp[p++] = IN_es[0]; exp[p++] = IN_es[1]; exp[p++] = '"'; exp[p++] = ':'; p = ref_scalar(exp, p, IN_ek[1], IN_ev[1], IN_es + 2, 0); exp[p++] = '}';
  } else {      /* [v0,v1] */
    ev[ne].f0 = E_BEGIN_ARRAY; ne++;
    for (int i = 0; i < 2; i++) { ev[ne].f0 = IN_ek[i]; ev[ne].f2 = IN_ev[i]; ev[ne].f3 = 2; ev[ne].f4.a[0] = IN_es[2 * i]; ev[ne].f4.a[1] = IN_es[2 * i + 1]; ne++; }
    ev[ne].f0 = E_END_ARRAY; ne++;
    exp[p++] = '['; p = ref_scalar(exp, p, IN_ek[0], IN_ev[0], IN_es, 0); exp[p++] = ','; p = ref_scalar(exp, p, IN_ek[1], IN_ev[1], IN_es + 2, 0); exp[p++] = ']';
  }
  u8* buf = malloc(CAP); ASSUME(buf != 0);
  struct S_struct_2eeres r; memset(&r, 0, sizeof r);
  IRC_THROW_ALLOWED = 0;
#ifdef KSEQ
  KSEQ(ev, ne, buf, CAP, &r);
#else
  k_enc_cjson(0, 1024, ev, ne, buf, CAP, &r);
#endif
  P(r.f0 == 0, "a grammatical event sequence is encoded without error");
  P(r.f3 == p, "compact JSON text has exactly the expected length (no missing or extra separators)"); ASSUME(r.f3 == p);
  int same = 1; for (unsigned i = 0; i < 24; i++) if (i < p && buf[i] != exp[i]) same = 0;
  P(same, "compact JSON text equals the RFC 8259 text of the pushed events");
  P(r.f2 == 0 && r.f4 == 0, "depth and container stack are back to empty");
  WIT(r.f0 == 0 && r.f3 == p);
}

/* ---------------- C06 / C08 K8.2: scalar events through the binary encoders, read back by reference decoders written from the specifications ---------------- */
/* returns bytes used (0 = ill-formed); kind: 1 uint (val), 2 negative int (val = two's complement), 3 null, 4 false, 5 true, 6 decimal big number text (H) */
static unsigned ref_dec(const u8* b, u64 n, unsigned* kind, u64* val) {
#if FMT == 2      /* CBOR RFC 8949 */
  u8 ib = b[0], mt = ib >> 5, info = ib & 0x1f; u64 a = 0; unsigned used = 1;
  if (info < 24) a = info; else if (info <= 27) { unsigned w = 1u << (info - 24); used = 1 + w; for (unsigned i = 0; i < 8; i++) if (i < w) a = (a << 8) | b[1 + i]; } else if (mt != 7) return 0;
  if (mt == 0) { *kind = 1; *val = a; return used; }
  if (mt == 1) { if (a > 0x7fffffffffffffffULL) return 0; *kind = 2; *val = ~a; return used; }
  if (mt == 7 && ib == 0xf6) { *kind = 3; return 1; } if (mt == 7 && ib == 0xf4) { *kind = 4; return 1; } if (mt == 7 && ib == 0xf5) { *kind = 5; return 1; }
  return 0;
#elif FMT == 3    /* MessagePack */
  u8 t = b[0]; u64 a = 0;
  if (t <= 0x7f) { *kind = 1; *val = t; return 1; }
  if (t >= 0xe0) { *kind = 2; *val = (u64)(s64)(s8)t; return 1; }
  if (t == 0xc0) { *kind = 3; return 1; } if (t == 0xc2) { *kind = 4; return 1; } if (t == 0xc3) { *kind = 5; return 1; }
  if (t >= 0xcc && t <= 0xcf) { unsigned w = 1u << (t - 0xcc); for (unsigned i = 0; i < 8; i++) if (i < w) a = (a << 8) | b[1 + i]; *kind = 1; *val = a; return 1 + w; }
  if (t >= 0xd0 && t <= 0xd3) { unsigned w = 1u << (t - 0xd0); for (unsigned i = 0; i < 8; i++) if (i < w) a = (a << 8) | b[1 + i];
    s64 v = w == 1 ? (s64)(s8)a : w == 2 ? (s64)(s16)a : w == 4 ? (s64)(s32)a : (s64)a; if (v >= 0) { *kind = 1; *val = (u64)v; } else { *kind = 2; *val = (u64)v; } return 1 + w; }
  return 0;
#else             /* UBJSON */
  u8 t = b[0]; u64 a = 0; s64 v;
  if (t == 'Z') { *kind = 3; return 1; } if (t == 'F') { *kind = 4; return 1; } if (t == 'T') { *kind = 5; return 1; }
  if (t == 'U') { *kind = 1; *val = b[1]; return 2; }
  unsigned w = t == 'i' ? 1 : t == 'I' ? 2 : t == 'l' ? 4 : t == 'L' ? 8 : 0;
  if (w) { for (unsigned i = 0; i < 8; i++) if (i < w) a = (a << 8) | b[1 + i]; v = w == 1 ? (s64)(s8)a : w == 2 ? (s64)(s16)a : w == 4 ? (s64)(s32)a : (s64)a; if (v >= 0) { *kind = 1; *val = (u64)v; } else { *kind = 2; *val = (u64)v; } return 1 + w; }
  if (t == 'H' && b[1] == 'U') { unsigned len = b[2]; if (len == 0 || len > 20) return 0; u128 acc = 0; for (unsigned i = 0; i < 20; i++) if (i < len) { u8 c = b[3 + i]; if (c < '0' || c > '9') return 0; acc = acc * 10 + (c - '0'); }
    if (acc > (u128)0xffffffffffffffffULL) return 0; *kind = 6; *val = (u64)acc; return 3 + len; }
  return 0;
#endif
}
#ifndef SK
#define SK E_UINT
#endif
HARNESS(h_scalar) {
  HAVOC_ARR(IN_ev, 2); ASSUME(SK != E_BOOL || IN_ev[0] <= 1);
#ifdef VLO
  ASSUME(IN_ev[0] >= VLO && IN_ev[0] <= VHI);   /* value window (decimal digit loops do not scale to the full range, DESIGN 2.5) */
#endif
  struct S_struct_2eeev ev[1]; memset(ev, 0, sizeof ev); ev[0].f0 = SK; ev[0].f2 = IN_ev[0];
  u8* buf = malloc(CAP); ASSUME(buf != 0); memset(buf, 0, CAP);
  struct S_struct_2eeres r; memset(&r, 0, sizeof r);
  IRC_THROW_ALLOWED = 1;
  run_enc(0, 1024, 0, ev, 1, buf, &r);
  if (r.f0 != 0) { WIT(1); return; }                       /* refused at encode time: allowed for values outside the format's domain */
  u64 n = r.f3; P(n >= 1 && n <= 24, "a scalar is 1..24 bytes"); ASSUME(n >= 1 && n <= 24);
  unsigned kind = 0; u64 val = 0; unsigned used = ref_dec(buf, n, &kind, &val);
  P(used == n, "the bytes written for one scalar event are exactly one well-formed item (nothing missing, nothing extra)");
  if (SK == E_UINT) P((kind == 1 || kind == 6) && val == IN_ev[0], "an unsigned integer reads back as the same non-negative integer");
  if (SK == E_INT) P(((s64)IN_ev[0] >= 0 ? kind == 1 : kind == 2) && val == IN_ev[0], "a signed integer reads back as the same integer");
  if (SK == E_NULL) P(kind == 3, "null reads back as null");
  if (SK == E_BOOL) P(kind == (IN_ev[0] ? 5 : 4), "a boolean reads back as the same boolean");
#ifdef VLO
  WIT(1);
#else
  WIT(SK == E_UINT || SK == E_INT ? IN_ev[0] > 0x8000000000000000ULL : 1);
#endif
}
