/* harnesses for kernel "enc": real streaming encoders driven by event sequences.
   h_limit (C10 K10.1): one step from ANY depth d0 <= limit m: begin_* fails with max_nesting_depth_exceeded iff d0+1 > m, else depth d0+1; matching end_* restores d0. */
#include "kernel.c"
#include "vharness.h"
#define NEED_THROWS
#include "vmodels.h"
#ifndef FMT
#define FMT 0
#endif
#define CAP 64
#ifdef LIMIT
#define RUN(f) k_lim_##f
#else
#define RUN(f) k_enc_##f
#endif
static void run_enc(int d0, int m, unsigned popts, struct S_struct_2eeev* ev, unsigned nev, u8* buf, struct S_struct_2eeres* r) {
#if FMT == 0
  RUN(cjson)(d0, m, ev, nev, buf, CAP, r);
#elif FMT == 1
  RUN(pjson)(d0, m, popts, ev, nev, buf, CAP, r);
#elif FMT == 2
  RUN(cbor)(d0, m, ev, nev, buf, CAP, r);
#elif FMT == 3
  RUN(msgpack)(d0, m, ev, nev, buf, CAP, r);
#else
  RUN(ubjson)(d0, m, ev, nev, buf, CAP, r);
#endif
}
enum { E_BEGIN_ARRAY = 0, E_BEGIN_ARRAY_LEN, E_END_ARRAY, E_BEGIN_OBJECT, E_BEGIN_OBJECT_LEN, E_END_OBJECT, E_KEY, E_UINT, E_INT, E_NULL, E_BOOL, E_STRING, E_DOUBLE, E_BYTES, E_HALF };
INPUT(s32, IN_d0) INPUT(s32, IN_m) INPUT(u32, IN_kind) INPUT(u64, IN_len) INPUT(u32, IN_popts) INPUT(u32, IN_close)
HARNESS(h_limit) {
  HAVOC(IN_d0); HAVOC(IN_m); HAVOC(IN_kind); HAVOC(IN_len); HAVOC(IN_popts); HAVOC(IN_close);
  ASSUME(IN_d0 >= 0 && IN_d0 <= IN_m);                       /* reachable depths: the limit was respected so far */
#ifdef KIND
  IN_kind = KIND;   /* concrete per job: keeps each query small */
#endif
  ASSUME(IN_kind == E_BEGIN_ARRAY || IN_kind == E_BEGIN_ARRAY_LEN || IN_kind == E_BEGIN_OBJECT || IN_kind == E_BEGIN_OBJECT_LEN);
#ifdef CLOSE
  IN_close = CLOSE;
#endif
  ASSUME(IN_close <= 1); ASSUME(IN_popts < (1u << 16));
  if (IN_close) ASSUME(IN_len == 0);
  struct S_struct_2eeev ev[2]; memset(ev, 0, sizeof ev);
  ev[0].f0 = IN_kind; ev[0].f2 = IN_len;
  ev[1].f0 = (IN_kind <= E_BEGIN_ARRAY_LEN) ? E_END_ARRAY : E_END_OBJECT;
  u8* buf = malloc(CAP); ASSUME(buf != 0);
  struct S_struct_2eeres r; memset(&r, 0, sizeof r);
  IRC_THROW_ALLOWED = 1;   /* a json_exception (ser_error) is a documented refusal, e.g. UBJSON lengths beyond int64 */
  run_enc(IN_d0, IN_m, IN_popts, ev, IN_close ? 2 : 1, buf, &r);
  int emax = k_enc_errc(FMT, 0);
  int indef_refused = (FMT == 3) && (IN_kind == E_BEGIN_ARRAY || IN_kind == E_BEGIN_OBJECT);   /* MessagePack has no indefinite containers: documented error */
  if (indef_refused) { WIT(1); P(r.f0 == k_enc_errc(3, IN_kind == E_BEGIN_ARRAY ? 3 : 4) && r.f3 == 0, "msgpack: container without length refused, nothing written"); return; }
  if ((s64)IN_d0 + 1 > (s64)IN_m) {
    P(r.f0 == emax && r.f1 == 0, "opening a container beyond max_nesting_depth is refused with max_nesting_depth_exceeded");
    P(r.f3 == 0 && r.f4 == 0, "a refused container writes nothing and pushes no state");
  } else {
    P(r.f0 != emax, "a container exactly at or below the limit is accepted");
    if (r.f0 == 0 && !IN_close) P(r.f2 == IN_d0 + 1 && r.f4 == 1, "accepted container: depth+1 and one stack entry");
    if (r.f0 == 0 && IN_close) P(r.f2 == IN_d0 && r.f4 == 0, "closing the container restores the depth and pops the stack entry");
    if (IN_close) P(r.f0 == 0, "an empty container (declared length 0 or indefinite) opens and closes without error");
  }
  WIT(r.f0 == 0 && IN_d0 > 1000);
}
