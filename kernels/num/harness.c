/* harnesses for kernel "num" (C04 K4.1-K4.3, C01 K1.2) */
#include "kernel.c"
#include "vharness.h"
#ifndef NMAX
#define NMAX 21
#endif
#ifndef WEC
#define WEC 0
#endif
#ifndef WLEN
#define WLEN NMAX
#endif
#ifndef NMIN
#define NMIN 0
#endif
INPUT_ARR(u8, IN_s, NMAX) INPUT(u64, IN_n) INPUT(u64, IN_v)

static u8* mkbuf(void){
  HAVOC_ARR(IN_s, NMAX);
#ifdef FIXN
  IN_n = NMAX;   /* concrete length: loop exits fold during symbolic execution */
#else
  HAVOC(IN_n); ASSUME(IN_n >= NMIN && IN_n <= NMAX);
#endif
  /* optional CONCRETE prefix bytes (PFX0..PFX2): symbolic execution then follows one branch of a parser state machine instead of all */
#ifdef PFX0
  IN_s[0] = PFX0;
#endif
#ifdef PFX1
  IN_s[1] = PFX1;
#endif
#ifdef PFX2
  IN_s[2] = PFX2;
#endif
  u8* s = malloc(IN_n ? IN_n : 1); ASSUME(s != 0);
  if (IN_n) memcpy(s, IN_s, IN_n);
#ifdef PFX0
  s[0] = PFX0;   /* jobs with a prefix have NMIN > prefix length */
#endif
#ifdef PFX1
  s[1] = PFX1;
#endif
#ifdef PFX2
  s[2] = PFX2;
#endif
  return s;
}
/* reference: decimal digits s[st..n) -> value in u128 (n <= 21 digits < 2^70), alldig */
#define REFDEC(st) int alldig = IN_n > (st); u128 v = 0; for (u64 i = (st); i < IN_n; i++) { u8 c = s[i]; if (c < '0' || c > '9') alldig = 0; else v = v * 10 + (c - '0'); }

#define H_DEC_U(NAME, KFN, T, MAXV) HARNESS(NAME){ \
  u8* s = mkbuf(); T out = 0; u64 consumed = 0; \
  ASSUME(IN_n <= 1 || s[0] != '0');  /* caller precondition: JSON integer literal, no leading zero */ \
  int ec = KFN(s, IN_n, &out, &consumed); \
  REFDEC(0) \
  if (alldig && v <= (u128)(MAXV)) { P(ec == 0, "in-range literal accepted"); P(out == (T)v, "exact value"); P(consumed == IN_n, "all consumed"); } \
  else P(ec != 0, "non-numeric or out-of-range literal rejected (never wrapped)"); \
  WIT(ec == 0 && IN_n == WLEN); }
H_DEC_U(h_dec_u64, k_dec_u64, u64, 0xFFFFFFFFFFFFFFFFULL)
H_DEC_U(h_dec_u32, k_dec_u32, u32, 0xFFFFFFFFULL)
H_DEC_U(h_dec_u16, k_dec_u16, u16, 0xFFFFULL)

#define H_DEC_S(NAME, KFN, T, BITS) HARNESS(NAME){ \
  u8* s = mkbuf(); T out = 0; u64 consumed = 0; \
  int neg = IN_n > 0 && s[0] == '-'; u64 st = neg ? 1 : 0; \
  ASSUME(IN_n <= st + 1 || s[st] != '0'); \
  int ec = KFN(s, IN_n, &out, &consumed); \
  REFDEC(st) \
  u128 lim = neg ? ((u128)1 << (BITS - 1)) : (((u128)1 << (BITS - 1)) - 1); \
  if (alldig && v <= lim) { P(ec == 0, "in-range literal accepted"); P(out == (T)(neg ? (u64)0 - (u64)v : (u64)v), "exact value"); P(consumed == IN_n, "all consumed"); } \
  else P(ec != 0, "non-numeric or out-of-range literal rejected (never wrapped)"); \
  WIT(ec == 0 && IN_n == WLEN && neg); }
H_DEC_S(h_dec_i64, k_dec_i64, u64, 64)
H_DEC_S(h_dec_i32, k_dec_i32, u32, 32)
H_DEC_S(h_dec_i8, k_dec_i8, u8, 8)

/* to_integer: 0 | [1-9][0-9]* | 0[bB][01]* | 0[xX][0-9a-fA-F]* | 0[0-7]+ ; optional leading '-' for signed */
static int ref_toi(u8* s, u64 st, u64 n, u128* pv, int* fits, u128 lim){
  /* returns 1 if grammatical; *fits=0 when the value exceeds lim at any prefix */
  u128 v = 0; *fits = 1; *pv = 0;
  if (n <= st) return 0;
  u32 base = 10; u64 i = st;
  if (s[st] == '0') {
    if (n == st + 1) { return 1; }
    u8 c = s[st + 1];
    if (c == 'b' || c == 'B') { base = 2; i = st + 2; }
    else if (c == 'x' || c == 'X') { base = 16; i = st + 2; }
    else if (c >= '0' && c <= '9') { base = 8; i = st + 1; }
    else return 0;
  } else if (!(s[st] >= '1' && s[st] <= '9')) return 0;
  for (; i < n; i++) {
    u8 c = s[i]; u32 d;
    if (c >= '0' && c <= '9') d = c - '0';
    else if (c >= 'a' && c <= 'f') d = c - 'a' + 10;
    else if (c >= 'A' && c <= 'F') d = c - 'A' + 10;
    else return 0;
    if (d >= base) return 0;
    if (*fits) { v = (base == 2 ? (v << 1) : base == 8 ? (v << 3) : base == 16 ? (v << 4) : v * 10) + d; if (v > lim) *fits = 0; }
  }
  *pv = v; return 1;
}
HARNESS(h_toi_u64){
  u8* s = mkbuf(); u64 out = 0; u64 consumed = 0;
  int ec = k_toi_u64(s, IN_n, &out, &consumed);
  u128 v; int fits; int g = ref_toi(s, 0, IN_n, &v, &fits, (u128)0xFFFFFFFFFFFFFFFFULL);
  if (g && fits) { P(ec == 0, "grammatical in-range accepted"); P(out == (u64)v, "exact value"); }
  else P(ec != 0, "ungrammatical or out-of-range rejected (never wrapped)");
  WIT(ec == WEC && IN_n == WLEN);
}
HARNESS(h_toi_i64){
  u8* s = mkbuf(); u64 out = 0; u64 consumed = 0;
  int neg = IN_n > 0 && s[0] == '-'; u64 st = neg ? 1 : 0;
  int ec = k_toi_i64(s, IN_n, &out, &consumed);
  u128 lim = neg ? ((u128)1 << 63) : (((u128)1 << 63) - 1);
  u128 v; int fits; int g = ref_toi(s, st, IN_n, &v, &fits, lim);
  if (g && fits) { P(ec == 0, "grammatical in-range accepted"); P(out == (neg ? (u64)0 - (u64)v : (u64)v), "exact value"); }
  else P(ec != 0, "ungrammatical or out-of-range rejected (never wrapped)");
  WIT(ec == WEC && IN_n == WLEN);
}
HARNESS(h_toi_i32){
  u8* s = mkbuf(); u32 out = 0; u64 consumed = 0;
  int neg = IN_n > 0 && s[0] == '-'; u64 st = neg ? 1 : 0;
  int ec = k_toi_i32(s, IN_n, &out, &consumed);
  u128 lim = neg ? ((u128)1 << 31) : (((u128)1 << 31) - 1);
  u128 v; int fits; int g = ref_toi(s, st, IN_n, &v, &fits, lim);
  if (g && fits) { P(ec == 0, "grammatical in-range accepted"); P(out == (u32)(neg ? (u64)0 - (u64)v : (u64)v), "exact value"); }
  else P(ec != 0, "ungrammatical or out-of-range rejected (never wrapped)");
  WIT(ec == WEC && IN_n == WLEN);
}
/* hex_to_integer: precondition length>0 (JSONCONS_ASSERT) */
HARNESS(h_hex_u64){
  u8* s = mkbuf(); ASSUME(IN_n > 0); u64 out = 0; u64 consumed = 0;
  int ec = k_hex_u64(s, IN_n, &out, &consumed);
  int ok = 1, fits = 1; u128 v = 0;
  for (u64 i = 0; i < IN_n; i++) { u8 c = s[i]; u32 d; if (c >= '0' && c <= '9') d = c - '0'; else if (c >= 'a' && c <= 'f') d = c - 'a' + 10; else if (c >= 'A' && c <= 'F') d = c - 'A' + 10; else { ok = 0; d = 0; }
    if (ok && fits) { v = v * 16 + d; if (v > (u128)0xFFFFFFFFFFFFFFFFULL) fits = 0; } }
  if (ok && fits) { P(ec == 0, "hex accepted"); P(out == (u64)v, "exact value"); } else P(ec != 0, "rejected, never wrapped");
  WIT(ec == 0 && IN_n == WLEN);
}
HARNESS(h_hex_i64){
  u8* s = mkbuf(); ASSUME(IN_n > 0); u64 out = 0; u64 consumed = 0;
  int neg = s[0] == '-'; u64 st = neg;
  int ec = k_hex_i64(s, IN_n, &out, &consumed);
  u128 lim = neg ? ((u128)1 << 63) : (((u128)1 << 63) - 1);
  int ok = 1, fits = 1; u128 v = 0;
  for (u64 i = st; i < IN_n; i++) { u8 c = s[i]; u32 d; if (c >= '0' && c <= '9') d = c - '0'; else if (c >= 'a' && c <= 'f') d = c - 'a' + 10; else if (c >= 'A' && c <= 'F') d = c - 'A' + 10; else { ok = 0; d = 0; }
    if (ok && fits) { v = v * 16 + d; if (v > lim) fits = 0; } }
  if (ok && fits) { P(ec == 0, "hex accepted"); P(out == (neg ? (u64)0 - (u64)v : (u64)v), "exact value"); } else P(ec != 0, "rejected, never wrapped");
  WIT(ec == 0 && IN_n == WLEN && neg);
}
/* is_base10: -?[0-9]+ */
HARNESS(h_is_base10){
  u8* s = mkbuf();
  int r = k_is_base10(s, IN_n);
  u64 st = (IN_n > 0 && s[0] == '-') ? 1 : 0; int ok = IN_n > st;
  for (u64 i = st; i < IN_n; i++) if (s[i] < '0' || s[i] > '9') ok = 0;
  P((r != 0) == ok, "is_base10 == -?[0-9]+");
  WIT(r && IN_n == NMAX);
}

/* from_integer: |v| restricted to a digit class [LO,HI] with ND digits */
#ifndef LO
#define LO 0
#define HI 9
#define ND 1
#endif
#define H_FROM(NAME, KFN, ST, UT, SIGNED) HARNESS(NAME){ \
  HAVOC(IN_v); ST v = (ST)IN_v; ASSUME((u64)(s64)v == IN_v || (u64)(UT)v == IN_v); \
  u64 a = (SIGNED && (s64)v < 0) ? (u64)0 - (u64)(s64)v : (u64)(UT)v; \
  ASSUME(a >= LO && a <= HI); \
  u8 buf[24]; u64 ret = 0; \
  u64 n = KFN(v, buf, 24, &ret); \
  u64 st = buf[0] == '-'; \
  P(st == (SIGNED && (s64)v < 0), "minus sign iff negative"); \
  P(n == st + ND, "length = digits (+sign)"); P(ret == n, "returned count = characters written"); \
  P(buf[st] != '0' || n == st + 1, "no leading zero"); \
  u64 acc = 0; int ok = 1; \
  for (u64 i = st; i < n && i < 24; i++) { u8 c = buf[i]; if (c < '0' || c > '9') ok = 0; acc = acc * 10 + (c - '0'); } \
  P(ok, "digits only"); P(acc == a, "digits denote exactly |v|"); \
  WIT(n == st + ND); }
H_FROM(h_from_i64, k_from_i64, s64, u64, 1)
H_FROM(h_from_u64, k_from_u64, u64, u64, 0)
H_FROM(h_from_i32, k_from_i32, s32, u32, 1)
H_FROM(h_from_u32, k_from_u32, u32, u32, 0)
H_FROM(h_from_i16, k_from_i16, s16, u16, 1)
H_FROM(h_from_i8, k_from_i8, s8, u8, 1)

/* round trip: dec_to_integer(from_integer(v)) == v, restricted to a digit class */
HARNESS(h_rt_i64){
  HAVOC(IN_v); s64 v = (s64)IN_v; u64 a = v < 0 ? (u64)0 - (u64)v : (u64)v; ASSUME(a >= LO && a <= HI);
  u8 buf[24]; u64 ret = 0; u64 n = k_from_i64(v, buf, 24, &ret); ASSUME(n <= 24);
  u64 out = 0, consumed = 0; int ec = k_dec_i64(buf, n, &out, &consumed);
  P(ec == 0 && out == (u64)v && consumed == n, "dec_to_integer(from_integer(v)) == v");
  WIT(ec == 0);
}
/* integer_to_hex then hex_to_integer */
HARNESS(h_rt_hex_i64){
  HAVOC(IN_v); s64 v = (s64)IN_v;
  u8 buf[24]; u64 ret = 0; u64 n = k_tohex_i64(v, buf, 24, &ret); P(n <= 17 && n >= 1 && ret == n, "hex length"); ASSUME(n <= 24 && n >= 1);
  u64 out = 0, consumed = 0; int ec = k_hex_i64(buf, n, &out, &consumed);
  P(ec == 0 && out == (u64)v && consumed == n, "hex_to_integer(integer_to_hex(v)) == v");
  WIT(ec == 0 && n == 17);
}
HARNESS(h_rt_hex_u64){
  HAVOC(IN_v); u64 v = IN_v;
  u8 buf[24]; u64 ret = 0; u64 n = k_tohex_u64(v, buf, 24, &ret); P(n <= 16 && n >= 1 && ret == n, "hex length"); ASSUME(n <= 24 && n >= 1);
  u64 out = 0, consumed = 0; int ec = k_hex_u64(buf, n, &out, &consumed);
  P(ec == 0 && out == v && consumed == n, "hex_to_integer(integer_to_hex(v)) == v");
  WIT(ec == 0 && n == 16);
}

/* ---------------- C01 K1.3 / C04: a double's digits and exponent are assembled into JSON number text that keeps the floating kind and denotes digits * 10^k ---------------- */
#ifndef ND
#define ND 3
#endif
INPUT_ARR(u8, IN_dig, 20) INPUT(s32, IN_k10) INPUT(u32, IN_mode)
/* RFC 8259 number grammar over out[0..w): returns 1 if well formed; collects mantissa digits (int part then fraction) and the decimal exponent */
static int json_number(const u8* o, unsigned w, u8* m, unsigned* nm, s32* e10, int* has_frac_or_exp) {
  unsigned p = 0; *nm = 0; *e10 = 0; *has_frac_or_exp = 0;
  if (p < w && o[p] == '-') p++;
  if (p >= w) return 0;
  if (o[p] == '0') { m[(*nm)++] = '0'; p++; }
  else if (o[p] >= '1' && o[p] <= '9') { for (int i = 0; i < 40; i++) { if (p < w && o[p] >= '0' && o[p] <= '9') { if (*nm < 40) m[(*nm)++] = o[p]; p++; } } }
  else return 0;
  if (p < w && o[p] == '.') { p++; *has_frac_or_exp = 1; unsigned f = 0; for (int i = 0; i < 40; i++) { if (p < w && o[p] >= '0' && o[p] <= '9') { if (*nm < 40) m[(*nm)++] = o[p]; p++; f++; } } if (f == 0) return 0; *e10 -= (s32)f; }
  if (p < w && (o[p] == 'e' || o[p] == 'E')) { p++; *has_frac_or_exp = 1; int neg = 0; if (p < w && (o[p] == '+' || o[p] == '-')) { neg = o[p] == '-'; p++; } s32 x = 0; unsigned d = 0; for (int i = 0; i < 9; i++) { if (p < w && o[p] >= '0' && o[p] <= '9') { x = x * 10 + (o[p] - '0'); p++; d++; } } if (d == 0) return 0; *e10 += neg ? -x : x; }
  return p == w;
}
/* normalise (digits, exponent): strip leading and trailing zeros */
static void norm(u8* m, unsigned* n, s32* e) { for (int i = 0; i < 40; i++) if (*n > 1 && m[*n - 1] == '0') { (*n)--; (*e)++; }
  unsigned lead = 0; for (int i = 0; i < 40; i++) if (lead + 1 < *n && m[lead] == '0') lead++;
  if (lead) { for (unsigned i = 0; i < 40; i++) if (i + lead < *n) m[i] = m[i + lead]; *n -= lead; }
  if (*n == 1 && m[0] == '0') *e = 0; }
HARNESS(h_prettify) {
  HAVOC_ARR(IN_dig, 20); HAVOC(IN_k10); HAVOC(IN_mode); ASSUME(IN_mode <= 1);
  u8* d = malloc(ND); ASSUME(d != 0); for (int i = 0; i < ND; i++) { ASSUME(IN_dig[i] >= '0' && IN_dig[i] <= '9'); d[i] = IN_dig[i]; } ASSUME(d[0] != '0');   /* grisu3 / the %.17e path hand over a non-empty digit string without a leading zero */
  ASSUME(IN_k10 >= -400 && IN_k10 <= 400);
#ifdef PMODE
  IN_mode = PMODE;
#endif
  if (IN_mode == 1) ASSUME(IN_k10 >= -30 && IN_k10 <= 30);   /* fixed notation writes |k| zeros: bounded so that the text fits the 64-byte sink (placed BEFORE the call) */
  u8* out = malloc(64); ASSUME(out != 0); memset(out, 0, 64);
  /* the two in-repo callers: dtoa_general (-4, max_digits10) and dtoa_fixed (INT_MIN, INT_MAX) */
  u64 w = IN_mode ? k_prettify(d, ND, IN_k10, (s32)0x80000000, 0x7fffffff, out, 64) : k_prettify(d, ND, IN_k10, -4, 17, out, 64);
  P(w >= 3 && w <= 63, "text fits"); ASSUME(w >= 3 && w <= 63);
  u8 m[40]; unsigned nm; s32 e10; int fk; int ok = json_number(out, (unsigned)w, m, &nm, &e10, &fk);
  P(ok, "the text is an RFC 8259 number");
  P(fk, "the text contains a fraction or an exponent, so it re-parses as a floating-point value (kind kept)");
  u8 r[40]; unsigned nr = ND; s32 er = IN_k10; for (int i = 0; i < ND; i++) r[i] = d[i];
  norm(m, &nm, &e10); norm(r, &nr, &er);
  int same = (nm == nr && e10 == er); for (unsigned i = 0; i < 40; i++) if (i < nm && i < nr && m[i] != r[i]) same = 0;
  P(same, "the text denotes exactly digits * 10^k");
  WIT(IN_k10 < -10 && ok);
}
#ifndef NB2
#define NB2 6
#endif
INPUT_ARR(u8, IN_pb, 12) INPUT(u32, IN_dp)
/* printf("%.*g/e/f") output grammar with decimal point dp: [-] digits [dp digits] [e [+-] digits] */
static int printf_float(const u8* s, unsigned n, u8 dp) { unsigned p = 0; if (p < n && s[p] == '-') p++; unsigned d = 0; for (int i = 0; i < 12; i++) if (p < n && s[p] >= '0' && s[p] <= '9') { p++; d++; } if (!d) return 0;
  if (p < n && s[p] == dp) { p++; d = 0; for (int i = 0; i < 12; i++) if (p < n && s[p] >= '0' && s[p] <= '9') { p++; d++; } if (!d) return 0; }
  if (p < n && (s[p] == 'e' || s[p] == 'E')) { p++; if (p < n && (s[p] == '+' || s[p] == '-')) p++; d = 0; for (int i = 0; i < 12; i++) if (p < n && s[p] >= '0' && s[p] <= '9') { p++; d++; } if (d < 2 || d > 4) return 0; /* printf writes at least two exponent digits and never more than four (double: three) */ }
  return p == n; }
HARNESS(h_dump_buffer) {
  HAVOC_ARR(IN_pb, 12); HAVOC(IN_dp); ASSUME(IN_dp == '.' || IN_dp == ',' );
  u8* b = malloc(NB2); ASSUME(b != 0); for (int i = 0; i < NB2; i++) b[i] = IN_pb[i];
  ASSUME(printf_float(b, NB2, (u8)IN_dp));
  ASSUME(!(b[0] == '0' && NB2 > 1 && b[1] >= '0' && b[1] <= '9') && !(b[0] == '-' && b[1] == '0' && NB2 > 2 && b[2] >= '0' && b[2] <= '9'));   /* printf never writes a redundant leading zero */
  u8* out = malloc(32); ASSUME(out != 0); memset(out, 0, 32);
  u64 w = k_dump_buffer(b, NB2, (u8)IN_dp, out, 32);
  P(w >= NB2 && w <= NB2 + 2, "at most '.0' is added"); ASSUME(w <= NB2 + 2);
  u8 m[40]; unsigned nm; s32 e10; int fk; int ok = json_number(out, (unsigned)w, m, &nm, &e10, &fk);
  P(ok && fk, "the printf text becomes an RFC 8259 number with a fraction or exponent (locale decimal point replaced by '.', '.0' appended when needed)");
  unsigned q = 0; int same = 1; for (int i = 0; i < NB2; i++) { u8 c = b[i]; if (c == IN_dp) c = '.'; if (c == 'E') c = 'e'; if (q < w && out[q] == c) q++; else same = 0; }
  P(same && (q == w || (q + 2 == w && out[q] == '.' && out[q + 1] == '0')), "every character of the printf text is kept in order");
  WIT(ok);
}

/* ---------------- C05: write_double with an explicit precision never reads outside its stack buffer, whatever length snprintf reports ---------------- */
INPUT(u32, IN_wfmt) INPUT(s32, IN_prec) INPUT(u64, IN_dbits) INPUT(u32, IN_snret) INPUT_ARR(u8, IN_snout, 16)
#ifndef REPLAY
/* snprintf by contract (C11 7.21.6.5): returns the number of characters that WOULD have been written (here: any value up to 330 + precision digits), writes
   at most size-1 characters of the printf floating-point alphabet followed by NUL */
u32 snprintf(u8* buf, u64 size, u8* fmt, ...) {
  u32 r = IN_snret; u64 w = r < size ? r : size - 1;
  /* the characters written are left as they are: the caller's buffer is an uninitialised (= arbitrary) local, which covers every possible text */
  buf[w] = 0;
  return r;
}
#endif
HARNESS(h_write_double) {
  HAVOC(IN_wfmt); HAVOC(IN_prec); HAVOC(IN_dbits); HAVOC(IN_snret); HAVOC_ARR(IN_snout, 16);
#ifdef WFMT
  IN_wfmt = WFMT;
#endif
  ASSUME(IN_wfmt <= 2);                                    /* float_chars_format: general, fixed, scientific */
  IN_prec = 10;   /* concrete: with a symbolic precision CBMC also explores the precision_ == 0 branch (grisu3); the stubbed snprintf ignores the precision anyway */
  ASSUME(IN_prec >= 1 && IN_prec <= 60);
  ASSUME(((IN_dbits >> 52) & 0x7ff) != 0x7ff);             /* finite */
#ifdef SNRET
  IN_snret = SNRET;   /* the length snprintf reports is concrete per job (a symbolic loop bound over the 200-byte buffer does not finish in CBMC); text, precision and value stay symbolic */
#endif
  ASSUME(IN_snret >= 1 && IN_snret <= 330);   /* "%1.*f" of a finite double can need 309 integer digits + sign + point + precision digits; results up to 205 characters are explored (enough to pass the 200-byte buffer) */
  for (int i = 0; i < 16; i++) ASSUME((IN_snout[i] >= '0' && IN_snout[i] <= '9') || IN_snout[i] == '.' || IN_snout[i] == '-' || IN_snout[i] == 'e' || IN_snout[i] == '+');
  u8* out = malloc(8); ASSUME(out != 0);
  IRC_THROW_ALLOWED = 1;                                   /* "write_double failed" (json_runtime_error) is a documented refusal */
#ifdef REPLAY
  /* native replay: the real snprintf runs, so choose a (value, precision) whose formatted text has exactly the length the stub reported */
  { extern double pow(double, double); double v = 1.0; int p = 10; unsigned R = IN_snret;
    if (IN_wfmt == 1) { v = R >= 13 ? pow(10.0, (double)(R - 12)) : 1.0; p = 10; } else if (IN_wfmt == 2) { v = 1.0; p = R >= 7 ? (int)R - 6 : 1; } else { v = 1.0 / 3.0; p = R >= 3 ? (int)R - 2 : 1; }
    IN_prec = p; memcpy(&IN_dbits, &v, 8); }
#endif
  u64 w = k_write_double(IN_wfmt, IN_prec, irc_bits2d(IN_dbits), out, 8);
  P(w >= 1, "some text is produced (every read of the formatting buffer stayed inside it: CBMC bounds checks on the translated code)");
  WIT(1);
}
