#include "vselftest.h"
extern "C" {
#define D2(N, T) int N(const char*, unsigned long, T*, long*); int c_##N(const char*, unsigned long, T*, long*);
D2(k_dec_u64, uint64_t) D2(k_dec_i64, int64_t) D2(k_dec_u32, uint32_t) D2(k_dec_i32, int32_t) D2(k_dec_i8, int8_t) D2(k_dec_u16, uint16_t)
D2(k_toi_u64, uint64_t) D2(k_toi_i64, int64_t) D2(k_toi_i32, int32_t) D2(k_hex_u64, uint64_t) D2(k_hex_i64, int64_t)
#define F2(N, T) unsigned long N(T, char*, unsigned long, unsigned long*); unsigned long c_##N(T, char*, unsigned long, unsigned long*);
F2(k_from_i64, int64_t) F2(k_from_u64, uint64_t) F2(k_from_i32, int32_t) F2(k_from_u32, uint32_t) F2(k_from_i16, int16_t) F2(k_from_i8, int8_t) F2(k_tohex_i64, int64_t) F2(k_tohex_u64, uint64_t)
int k_is_base10(const char*, unsigned long); int c_k_is_base10(const char*, unsigned long);
}
template <class T, class F> void two(F f, F g, const char* s, unsigned long n) { T a = 0, b = 0; long ca = 0, cb = 0; int ra = 0, rb = 0; int ta = ST_TRY(ra = f(s, n, &a, &ca)); int tb = ST_TRY(rb = g(s, n, &b, &cb)); ST_CHECK(ta == tb && (ta || (ra == rb && ca == cb && (ra != 0 || a == b)))); }
template <class T, class F> void fr(F f, F g, T v) { char o1[32] = {0}, o2[32] = {0}; unsigned long r1 = 0, r2 = 0; unsigned long l1 = f(v, o1, 32, &r1), l2 = g(v, o2, 32, &r2); ST_CHECK(l1 == l2 && r1 == r2 && !memcmp(o1, o2, 32)); }
ST_MAIN_BEGIN
  // the repository's own unit-test literals for these functions plus seeded random vectors
  const char* fixed[] = {"0", "-0", "1", "-1", "18446744073709551615", "18446744073709551616", "9223372036854775807", "9223372036854775808", "-9223372036854775808", "-9223372036854775809",
    "0x7fffffffffffffff", "0xFFFFFFFFFFFFFFFF", "0b1011", "0777", "089", "", "-", "1a", "00", "4294967295", "4294967296", "2147483647", "-2147483648", "127", "-128", "128", "65535", "65536", "0x", "0b", "ffff", "-8000000000000000", "7fffffffffffffff"};
  for (const char* f : fixed) { unsigned long n = strlen(f);
    two<uint64_t>(k_dec_u64, c_k_dec_u64, f, n); two<int64_t>(k_dec_i64, c_k_dec_i64, f, n); two<uint32_t>(k_dec_u32, c_k_dec_u32, f, n); two<int32_t>(k_dec_i32, c_k_dec_i32, f, n); two<int8_t>(k_dec_i8, c_k_dec_i8, f, n); two<uint16_t>(k_dec_u16, c_k_dec_u16, f, n);
    two<uint64_t>(k_toi_u64, c_k_toi_u64, f, n); two<int64_t>(k_toi_i64, c_k_toi_i64, f, n); two<int32_t>(k_toi_i32, c_k_toi_i32, f, n);
    if (n) { two<uint64_t>(k_hex_u64, c_k_hex_u64, f, n); two<int64_t>(k_hex_i64, c_k_hex_i64, f, n); }
    ST_CHECK(k_is_base10(f, n) == c_k_is_base10(f, n)); }
  for (int it = 0; it < 100000; it++) {
    char s[24]; int len = st_rand() % 23; const char* al = "0123456789abcdefxXbB-ABCDEF";
    for (int i = 0; i < len; i++) { int r = st_rand() % 20; s[i] = r < 14 ? '0' + st_rand() % 10 : (r < 19 ? al[st_rand() % 27] : (char)(st_rand() % 256)); }
    if (st_rand() % 3 == 0 && len > 0) s[0] = '-';
    two<uint64_t>(k_dec_u64, c_k_dec_u64, s, len); two<int64_t>(k_dec_i64, c_k_dec_i64, s, len); two<uint32_t>(k_dec_u32, c_k_dec_u32, s, len); two<int32_t>(k_dec_i32, c_k_dec_i32, s, len);
    two<int8_t>(k_dec_i8, c_k_dec_i8, s, len % 5); two<uint16_t>(k_dec_u16, c_k_dec_u16, s, len % 7);
    two<uint64_t>(k_toi_u64, c_k_toi_u64, s, len); two<int64_t>(k_toi_i64, c_k_toi_i64, s, len); two<int32_t>(k_toi_i32, c_k_toi_i32, s, len % 13);
    if (len) { two<uint64_t>(k_hex_u64, c_k_hex_u64, s, len); two<int64_t>(k_hex_i64, c_k_hex_i64, s, len); }
    ST_CHECK(k_is_base10(s, len) == c_k_is_base10(s, len));
    uint64_t v = st_rand() >> (st_rand() % 64); if (st_rand() % 50 == 0) v = 0x8000000000000000ull; if (st_rand() % 50 == 0) v = ~0ull;
    fr<int64_t>(k_from_i64, c_k_from_i64, (int64_t)v); fr<int64_t>(k_from_i64, c_k_from_i64, -(int64_t)v); fr<uint64_t>(k_from_u64, c_k_from_u64, v);
    fr<int32_t>(k_from_i32, c_k_from_i32, (int32_t)v); fr<uint32_t>(k_from_u32, c_k_from_u32, (uint32_t)v); fr<int16_t>(k_from_i16, c_k_from_i16, (int16_t)v); fr<int8_t>(k_from_i8, c_k_from_i8, (int8_t)v);
    fr<int64_t>(k_tohex_i64, c_k_tohex_i64, (int64_t)v); fr<int64_t>(k_tohex_i64, c_k_tohex_i64, -(int64_t)v); fr<uint64_t>(k_tohex_u64, c_k_tohex_u64, v);
  }
ST_MAIN_END
