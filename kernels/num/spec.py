"""kernel num: integer <-> text conversions (read_number.hpp dec_to_integer/to_integer/hex_to_integer/is_base10,
write_number.hpp from_integer/integer_to_hex).  Serves C04 (K4.1-K4.3), C01 (K1.2 canonical integers), C05 (safety mode)."""
ASSUMPTIONS = [
    'num/h_toi_* (beyond 3 bytes): first 1-3 bytes are the concrete prefix named in the job; other first bytes are covered only up to 3 bytes',
    'num/h_dec_*: input has no redundant leading zero (precondition supplied by every in-repo caller that passes JSON integer literals; without it 006012954214956120960 is rejected as out-of-range although it fits)',
    'num/h_hex_*: length > 0 (the function JSONCONS_ASSERTs it; callers pass non-empty tokens)',
    'num/h_from_*: |v| restricted to one decimal digit class per job (bit-vector division by 10 does not scale beyond the classes listed)',
]
STUB_NOTES = ['fsink: fixed-array Result type (push_back only) instead of std::string']

def _cls(k):
    lo = 0 if k == 1 else 10 ** (k - 1)
    return dict(LO='%dULL' % lo, HI='%dULL' % (10 ** k - 1), ND=k)

def jobs(tier):
    J = []
    def add(id, harness, props, unwind, defs=None, timeout=300, desc='', bound='', **kw):
        J.append(dict(id=id, harness=harness, props=props, unwind=unwind, defs=defs or {}, timeout=timeout, desc=desc, bound=bound, **kw))
    t = tier == 'thorough'
    nmin = 0 if t else 17
    add('dec_u64', 'h_dec_u64', ['C04'], 23, dict(NMAX=21, NMIN=nmin, WLEN=20), 900, 'dec_to_integer<uint64_t> vs u128 reference: accept iff literal fits, exact value, never wrapped', 'all byte strings of length %d..21 (symbolic length)' % nmin)
    add('dec_i64', 'h_dec_i64', ['C04'], 23, dict(NMAX=21, NMIN=nmin, WLEN=20), 900, 'dec_to_integer<int64_t> vs u128 reference', 'all byte strings of length %d..21' % nmin)
    add('dec_u32', 'h_dec_u32', ['C04'], 14, dict(NMAX=12, WLEN=10), 600, 'dec_to_integer<uint32_t>', 'all byte strings <= 12 B')
    add('dec_i32', 'h_dec_i32', ['C04'], 14, dict(NMAX=12, WLEN=11), 600, 'dec_to_integer<int32_t>', 'all byte strings <= 12 B')
    add('dec_u16', 'h_dec_u16', ['C04'], 9, dict(NMAX=7, WLEN=5), 300, 'dec_to_integer<uint16_t>', 'all byte strings <= 7 B')
    add('dec_i8', 'h_dec_i8', ['C04'], 8, dict(NMAX=6, WLEN=4), 300, 'dec_to_integer<int8_t>', 'all byte strings <= 6 B')
    # to_integer is a state machine (outer switch over 4 inner loops); with a symbolic first byte CBMC explores every inner loop from every
    # outer iteration and does not finish beyond 5 bytes (measured).  So: full-symbolic jobs at <= 3 bytes (every first byte), plus jobs with a
    # CONCRETE prefix (first digit / 0x / 0b / 0) and a symbolic rest up to the overflow boundary.
    add('toi_u64_n3', 'h_toi_u64', ['C04'], 5, dict(NMAX=3, WLEN=3), 600, 'to_integer<uint64_t> vs reference grammar+value, all first bytes', 'all byte strings <= 3 B')
    add('toi_i64_n3', 'h_toi_i64', ['C04'], 5, dict(NMAX=3, WLEN=3), 600, 'to_integer<int64_t>, all first bytes', 'all byte strings <= 3 B')
    def toi(id, h, n, w, pfx, desc, unwind=None):
        d = dict(NMAX=n, WLEN=n, FIXN=1)
        neg = pfx.startswith('-'); body = pfx.lstrip('-')
        lim = {'h_toi_u64': (2**64 - 1, 0), 'h_toi_i64': (2**63 - 1, 2**63), 'h_toi_i32': (2**31 - 1, 2**31)}[h][1 if neg else 0]
        if body[:2] in ('0x', '0X', '0b'):
            least = 0
        elif body[0] == '0':
            least = int(body[1:] + '0' * (n - len(pfx)), 8)
        else:
            least = int(body + '0' * (n - len(pfx)))
        if least > lim:
            d['WEC'] = 34   # no literal with this prefix and length fits: the witness is a rejected (ERANGE) run
        for i, c in enumerate(pfx):
            d['PFX%d' % i] = "'%s'" % c
        add('%s_n%d' % (id, n), h, ['C04'], unwind or n + 2, d, 600, desc, 'prefix "%s" concrete, remaining %d bytes symbolic (length %d)' % (pfx, n - len(pfx), n))
    if t:
        for c in '123456789':
            for n in [19, 20, 21]:
                toi('toi_u64_dec' + c, 'h_toi_u64', n, n, c, 'to_integer<uint64_t>, decimal branch')
            for n in [18, 19, 20]:
                toi('toi_i64_dec' + c, 'h_toi_i64', n, n, c, 'to_integer<int64_t>, decimal branch')
                toi('toi_i64_negdec' + c, 'h_toi_i64', n + 1, n + 1, '-' + c, 'to_integer<int64_t>, negative decimal branch')
        for n in [17, 18, 19]:
            toi('toi_u64_hex', 'h_toi_u64', n, n, '0x', 'to_integer<uint64_t>, 0x branch')
            toi('toi_i64_neghex', 'h_toi_i64', n + 1, n + 1, '-0X', 'to_integer<int64_t>, -0X branch')
        for n in [22, 23]:
            toi('toi_u64_oct', 'h_toi_u64', n, n, '01', 'to_integer<uint64_t>, octal branch')
        toi('toi_u64_bin', 'h_toi_u64', 30, 30, '0b', 'to_integer<uint64_t>, 0b branch (overflow boundary at 66 chars is outside the bound)')
    else:
        # quick tier: one boundary job per branch (the rest run in the thorough tier)
        toi('toi_u64_dec1', 'h_toi_u64', 20, 20, '1', 'to_integer<uint64_t>, decimal branch at the 2^64 boundary')
        toi('toi_i64_dec9', 'h_toi_i64', 19, 19, '9', 'to_integer<int64_t>, decimal branch at the 2^63 boundary')
        toi('toi_i64_negdec9', 'h_toi_i64', 20, 20, '-9', 'to_integer<int64_t>, negative decimal branch at the -2^63 boundary')
        toi('toi_u64_hex', 'h_toi_u64', 18, 18, '0x', 'to_integer<uint64_t>, 0x branch, 16 hex digits')
    add('toi_i32_n3', 'h_toi_i32', ['C04'], 5, dict(NMAX=3, WLEN=3), 600, 'to_integer<int32_t>, all first bytes', 'all byte strings <= 3 B')
    for n in [10, 11]:
        toi('toi_i32_dec2', 'h_toi_i32', n, n, '2', 'to_integer<int32_t>, decimal branch')
        toi('toi_i32_negdec2', 'h_toi_i32', n + 1, n + 1, '-2', 'to_integer<int32_t>, negative decimal')
    add('hex_u64', 'h_hex_u64', ['C04'], 20, dict(NMAX=18, WLEN=16), 600, 'hex_to_integer<uint64_t> vs u128 reference', 'all byte strings 1..18 B')
    add('hex_i64', 'h_hex_i64', ['C04'], 20, dict(NMAX=18, WLEN=17), 600, 'hex_to_integer<int64_t>', 'all byte strings 1..18 B')
    add('is_base10', 'h_is_base10', ['C04'], 12, dict(NMAX=10), 300, 'is_base10 == -?[0-9]+', 'all byte strings <= 10 B')
    add('rt_hex_i64', 'h_rt_hex_i64', ['C04'], 20, {}, 600, 'hex_to_integer(integer_to_hex(v)) == v', 'all 2^64 int64 values')
    add('rt_hex_u64', 'h_rt_hex_u64', ['C04'], 20, {}, 600, 'hex_to_integer(integer_to_hex(v)) == v', 'all 2^64 uint64 values')
    for k in range(1, (8 if t else 6)):
        add('from_i64_d%d' % k, 'h_from_i64', ['C04', 'C01'], 24, _cls(k), 900, 'from_integer<int64_t>: sign, no leading zero, digits denote |v| exactly', 'all v with %d decimal digits, both signs' % k)
        add('from_u64_d%d' % k, 'h_from_u64', ['C04', 'C01'], 24, _cls(k), 900, 'from_integer<uint64_t>', 'all v with %d decimal digits' % k)
    # narrow value windows at the boundaries the digit classes above do not reach (the full classes >= 8 digits do not finish on any back end):
    # just below/above every power of ten, and the extreme values of the type
    for k in range(6, 20):
        lo = 10 ** k
        if lo + 9 <= 2 ** 63:
            add('from_i64_p10_%d' % k, 'h_from_i64', ['C04', 'C01'], 24, dict(LO='%dULL' % lo, HI='%dULL' % (lo + 9), ND=k + 1), 600, 'from_integer<int64_t> just above 10^%d' % k, '|v| in [10^%d, 10^%d+9], both signs' % (k, k))
            add('from_i64_p10m_%d' % k, 'h_from_i64', ['C04', 'C01'], 24, dict(LO='%dULL' % (lo - 10), HI='%dULL' % (lo - 1), ND=k), 600, 'from_integer<int64_t> just below 10^%d' % k, '|v| in [10^%d-10, 10^%d-1], both signs' % (k, k))
        add('from_u64_p10_%d' % k, 'h_from_u64', ['C04', 'C01'], 24, dict(LO='%dULL' % lo, HI='%dULL' % (lo + 9), ND=k + 1), 600, 'from_integer<uint64_t> just above 10^%d' % k, 'v in [10^%d, 10^%d+9]' % (k, k))
    add('from_i64_extreme', 'h_from_i64', ['C04', 'C01'], 24, dict(LO='9223372036854775000ULL', HI='9223372036854775808ULL', ND=19), 600, 'from_integer<int64_t> at INT64_MIN / INT64_MAX', '|v| in [2^63-808, 2^63], both signs (includes INT64_MIN)')
    add('from_u64_extreme', 'h_from_u64', ['C04', 'C01'], 24, dict(LO='18446744073709551000ULL', HI='18446744073709551615ULL', ND=20), 600, 'from_integer<uint64_t> at UINT64_MAX', 'v in [2^64-616, 2^64-1]')
    add('from_i32_extreme', 'h_from_i32', ['C04'], 24, dict(LO='2147483000ULL', HI='2147483648ULL', ND=10), 600, 'from_integer<int32_t> at INT32_MIN / INT32_MAX', '|v| in [2^31-648, 2^31]')
    for k in range(1, 6):
        add('from_i16_d%d' % k, 'h_from_i16', ['C04'], 24, _cls(k), 600, 'from_integer<int16_t>', 'all int16 with %d digits' % k)
    for k in range(1, 4):
        add('from_i8_d%d' % k, 'h_from_i8', ['C04'], 24, _cls(k), 300, 'from_integer<int8_t>', 'all int8 with %d digits' % k)
    for k in range(1, (8 if t else 6)):
        add('from_i32_d%d' % k, 'h_from_i32', ['C04'], 24, _cls(k), 900, 'from_integer<int32_t>', 'all int32 with %d digits' % k)
    for k in range(1, (6 if t else 4)):
        add('rt_i64_d%d' % k, 'h_rt_i64', ['C04', 'C01'], 24, _cls(k), 900, 'dec_to_integer(from_integer(v)) == v', 'all int64 with %d digits' % k)
    for nd in ([1, 2, 3, 5] if not t else [1, 2, 3, 5, 9, 17]):
        add('prettify_general_d%d' % nd, 'h_prettify', ['C01', 'C04'], 44, dict(ND=nd, PMODE=0), 900, 'prettify_string as dtoa_general calls it (-4, max_digits10): RFC 8259 number, keeps the floating kind, denotes digits*10^k exactly', 'all digit strings of length %d, every exponent k in [-400,400]' % nd, mem_gb=6)
        add('prettify_fixed_d%d' % nd, 'h_prettify', ['C01', 'C04'], 44, dict(ND=nd, PMODE=1), 900, 'prettify_string as dtoa_fixed calls it (INT_MIN, INT_MAX): RFC 8259 number, keeps the floating kind, denotes digits*10^k exactly', 'all digit strings of length %d, every exponent k in [-30,30]' % nd, mem_gb=6)
    for nb in ([1, 3, 5, 7] if not t else [1, 2, 3, 4, 5, 6, 7, 8, 9]):
        add('dump_buffer_n%d' % nb, 'h_dump_buffer', ['C01', 'C04'], 44, dict(NB2=nb), 600, 'dump_buffer: printf float text -> RFC 8259 number with fraction or exponent, characters kept in order', 'all printf-grammar texts of length %d, decimal point . or ,' % nb, mem_gb=6)
    for wf, wn in ((0, 'general'), (1, 'fixed'), (2, 'scientific')):
        for r in ((1, 199, 200, 201, 260) if wf == 1 else (199, 200)):
            add('write_double_%s_r%d' % (wn, r), 'h_write_double', ['C05'], max(r + 12, 24), dict(WFMT=wf, SNRET=r), 600, 'write_double::operator() with explicit precision (%s): the length reported by snprintf is never used to read beyond the stack buffer' % wn, 'snprintf reports %d characters; any text the buffer may hold, any finite double (precision 10; the stub ignores it)' % r, mem_gb=6)
    # C05: the same harnesses in safety mode (clang UBSan traps for signed overflow / shifts / bounds lowered to assertions + CBMC pointer checks)
    SAFETY_IDS = ['dec_u64', 'dec_i64', 'dec_i32', 'hex_i64', 'toi_i64_n3', 'toi_i64_negdec9_n20', 'from_i64_extreme', 'from_i32_extreme', 'from_i8_d3', 'rt_hex_i64', 'is_base10']
    for j in list(J):
        if j['id'] in SAFETY_IDS:
            J.append(dict(j, id=j['id'] + '_safety', props=['C05'], safety=True, desc=j['desc'] + ' [safety mode]'))
    return J
