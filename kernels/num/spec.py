"""kernel num: integer <-> text conversions (read_number.hpp dec_to_integer/to_integer/hex_to_integer/is_base10,
write_number.hpp from_integer/integer_to_hex).  Serves C04 (K4.1-K4.3), C01 (K1.2 canonical integers), C05 (safety mode)."""
ASSUMPTIONS = [
    'num/h_toi_* (beyond 3 bytes): first 1-3 bytes are the concrete prefix named in the job; other first bytes are covered only up to 3 bytes',
    'num/h_dec_*: input has no redundant leading zero (precondition supplied by every in-repo caller that passes JSON integer literals; without it 006012954214956120960 is rejected as out-of-range although it fits)',
    'num/h_hex_*: length > 0 (the function JSONCONS_ASSERTs it; callers pass non-empty tokens)',
    'num/h_from_*: |v| restricted to one decimal digit class per job (bit-vector division by 10 does not scale beyond the classes listed)',
]
STUB_NOTES = ['fsink: fixed-array Result type (push_back only) instead of std::string']

def _cls(k):
    lo = 0 if k == 1 else 10 ** (k - 1)
    return dict(LO='%dULL' % lo, HI='%dULL' % (10 ** k - 1), ND=k)

def jobs(tier):
    J = []
    def add(id, harness, props, unwind, defs=None, timeout=300, desc='', bound='', **kw):
        J.append(dict(id=id, harness=harness, props=props, unwind=unwind, defs=defs or {}, timeout=timeout, desc=desc, bound=bound, **kw))
    t = tier == 'thorough'
    nmin = 0 if t else 17
    add('dec_u64', 'h_dec_u64', ['C04'], 23, dict(NMAX=21, NMIN=nmin, WLEN=20), 900, 'dec_to_integer<uint64_t> vs u128 reference: accept iff literal fits, exact value, never wrapped', 'all byte strings of length %d..21 (symbolic length)' % nmin)
    add('dec_i64', 'h_dec_i64', ['C04'], 23, dict(NMAX=21, NMIN=nmin, WLEN=20), 900, 'dec_to_integer<int64_t> vs u128 reference', 'all byte strings of length %d..21' % nmin)
    add('dec_u32', 'h_dec_u32', ['C04'], 14, dict(NMAX=12, WLEN=10), 600, 'dec_to_integer<uint32_t>', 'all byte strings <= 12 B')
    add('dec_i32', 'h_dec_i32', ['C04'], 14, dict(NMAX=12, WLEN=11), 600, 'dec_to_integer<int32_t>', 'all byte strings <= 12 B')
    add('dec_u16', 'h_dec_u16', ['C04'], 9, dict(NMAX=7, WLEN=5), 300, 'dec_to_integer<uint16_t>', 'all byte strings <= 7 B')
    add('dec_i8', 'h_dec_i8', ['C04'], 8, dict(NMAX=6, WLEN=4), 300, 'dec_to_integer<int8_t>', 'all byte strings <= 6 B')
    # to_integer is a state machine (outer switch over 4 inner loops); with a symbolic first byte CBMC explores every inner loop from every
    # outer iteration and does not finish beyond 5 bytes (measured).  So: full-symbolic jobs at <= 3 bytes (every first byte), plus jobs with a
    # CONCRETE prefix (first digit / 0x / 0b / 0) and a symbolic rest up to the overflow boundary.
    add('toi_u64_n3', 'h_toi_u64', ['C04'], 5, dict(NMAX=3, WLEN=3), 600, 'to_integer<uint64_t> vs reference grammar+value, all first bytes', 'all byte strings <= 3 B')
    add('toi_i64_n3', 'h_toi_i64', ['C04'], 5, dict(NMAX=3, WLEN=3), 600, 'to_integer<int64_t>, all first bytes', 'all byte strings <= 3 B')
    pf = [("'1'", 20), ("'9'", 19)] if not t else [("'%d'" % d, 20 if d == 1 else 19) for d in range(1, 10)]
    for c, w in pf:
        add('toi_u64_dec%s' % c[1], 'h_toi_u64', ['C04'], 23, dict(NMAX=21, NMIN=17, WLEN=w, PFX0=c), 900, 'to_integer<uint64_t>, decimal branch', 'first byte %s concrete, rest symbolic, length 17..21' % c)
        add('toi_i64_dec%s' % c[1], 'h_toi_i64', ['C04'], 23, dict(NMAX=21, NMIN=17, WLEN=19, PFX0=c), 900, 'to_integer<int64_t>, decimal branch', 'first byte %s concrete, rest symbolic, length 17..21' % c)
        add('toi_i64_negdec%s' % c[1], 'h_toi_i64', ['C04'], 24, dict(NMAX=22, NMIN=18, WLEN=20, PFX0="'-'", PFX1=c), 900, 'to_integer<int64_t>, negative decimal branch', 'prefix -%s concrete, rest symbolic, length 18..22' % c[1])
    add('toi_u64_hex', 'h_toi_u64', ['C04'], 21, dict(NMAX=19, NMIN=2, WLEN=18, PFX0="'0'", PFX1="'x'"), 900, 'to_integer<uint64_t>, 0x branch', 'prefix 0x concrete, rest symbolic, length 2..19')
    add('toi_i64_neghex', 'h_toi_i64', ['C04'], 22, dict(NMAX=20, NMIN=3, WLEN=19, PFX0="'-'", PFX1="'0'", PFX2="'X'"), 900, 'to_integer<int64_t>, -0X branch', 'prefix -0X concrete, rest symbolic, length 3..20')
    add('toi_u64_oct', 'h_toi_u64', ['C04'], 26, dict(NMAX=24, NMIN=2, WLEN=23, PFX0="'0'", PFX1="'1'"), 900, 'to_integer<uint64_t>, octal branch', 'prefix 01 concrete, rest symbolic, length 2..24')
    if t:
        add('toi_u64_bin', 'h_toi_u64', ['C04'], 30, dict(NMAX=28, NMIN=2, WLEN=28, PFX0="'0'", PFX1="'b'"), 1800, 'to_integer<uint64_t>, 0b branch (overflow boundary at 66 chars is outside the bound)', 'prefix 0b concrete, rest symbolic, length 2..28')
    add('toi_i32_n3', 'h_toi_i32', ['C04'], 5, dict(NMAX=3, WLEN=3), 600, 'to_integer<int32_t>, all first bytes', 'all byte strings <= 3 B')
    add('toi_i32_dec2', 'h_toi_i32', ['C04'], 14, dict(NMAX=12, NMIN=8, WLEN=10, PFX0="'2'"), 600, 'to_integer<int32_t>, decimal branch', 'first byte 2 concrete, rest symbolic, length 8..12')
    add('toi_i32_negdec2', 'h_toi_i32', ['C04'], 15, dict(NMAX=13, NMIN=9, WLEN=11, PFX0="'-'", PFX1="'2'"), 600, 'to_integer<int32_t>, negative decimal', 'prefix -2 concrete, rest symbolic, length 9..13')
    add('hex_u64', 'h_hex_u64', ['C04'], 20, dict(NMAX=18, WLEN=16), 600, 'hex_to_integer<uint64_t> vs u128 reference', 'all byte strings 1..18 B')
    add('hex_i64', 'h_hex_i64', ['C04'], 20, dict(NMAX=18, WLEN=17), 600, 'hex_to_integer<int64_t>', 'all byte strings 1..18 B')
    add('is_base10', 'h_is_base10', ['C04'], 12, dict(NMAX=10), 300, 'is_base10 == -?[0-9]+', 'all byte strings <= 10 B')
    add('rt_hex_i64', 'h_rt_hex_i64', ['C04'], 20, {}, 600, 'hex_to_integer(integer_to_hex(v)) == v', 'all 2^64 int64 values')
    add('rt_hex_u64', 'h_rt_hex_u64', ['C04'], 20, {}, 600, 'hex_to_integer(integer_to_hex(v)) == v', 'all 2^64 uint64 values')
    for k in range(1, (8 if t else 6)):
        add('from_i64_d%d' % k, 'h_from_i64', ['C04', 'C01'], 24, _cls(k), 900, 'from_integer<int64_t>: sign, no leading zero, digits denote |v| exactly', 'all v with %d decimal digits, both signs' % k)
        add('from_u64_d%d' % k, 'h_from_u64', ['C04', 'C01'], 24, _cls(k), 900, 'from_integer<uint64_t>', 'all v with %d decimal digits' % k)
    for k in range(1, 6):
        add('from_i16_d%d' % k, 'h_from_i16', ['C04'], 24, _cls(k), 600, 'from_integer<int16_t>', 'all int16 with %d digits' % k)
    for k in range(1, 4):
        add('from_i8_d%d' % k, 'h_from_i8', ['C04'], 24, _cls(k), 300, 'from_integer<int8_t>', 'all int8 with %d digits' % k)
    for k in range(1, (8 if t else 6)):
        add('from_i32_d%d' % k, 'h_from_i32', ['C04'], 24, _cls(k), 900, 'from_integer<int32_t>', 'all int32 with %d digits' % k)
    for k in range(1, (6 if t else 4)):
        add('rt_i64_d%d' % k, 'h_rt_i64', ['C04', 'C01'], 24, _cls(k), 900, 'dec_to_integer(from_integer(v)) == v', 'all int64 with %d digits' % k)
    return J
