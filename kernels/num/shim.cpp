// kernel "num": integer <-> decimal/hex text conversions (read_number.hpp, write_number.hpp)
#include "vshim.h"
#include <jsoncons/utility/read_number.hpp>
#include <jsoncons/utility/write_number.hpp>
using namespace jsoncons;
#define DEC(NAME, T) KFN int NAME(const char* s, unsigned long n, T* out, long* consumed) { T v = 0; auto r = dec_to_integer(s, n, v); *out = v; *consumed = r.ptr - s; return (int)r.ec; }
DEC(k_dec_u64, uint64_t) DEC(k_dec_i64, int64_t) DEC(k_dec_u32, uint32_t) DEC(k_dec_i32, int32_t) DEC(k_dec_i8, int8_t) DEC(k_dec_u16, uint16_t)
#define TOI(NAME, T) KFN int NAME(const char* s, unsigned long n, T* out, long* consumed) { T v = 0; auto r = to_integer(s, n, v); *out = v; *consumed = r.ptr - s; return (int)r.ec; }
TOI(k_toi_u64, uint64_t) TOI(k_toi_i64, int64_t) TOI(k_toi_i32, int32_t)
#define HEX(NAME, T) KFN int NAME(const char* s, unsigned long n, T* out, long* consumed) { T v = 0; auto r = hex_to_integer(s, n, v); *out = v; *consumed = r.ptr - s; return (int)r.ec; }
HEX(k_hex_u64, uint64_t) HEX(k_hex_i64, int64_t)
#define FROM(NAME, T) KFN unsigned long NAME(T v, char* buf, unsigned long cap, unsigned long* ret) { fsink s{buf, 0, cap}; *ret = from_integer(v, s); return s.n; }
FROM(k_from_i64, int64_t) FROM(k_from_u64, uint64_t) FROM(k_from_i32, int32_t) FROM(k_from_u32, uint32_t) FROM(k_from_i16, int16_t) FROM(k_from_i8, int8_t)
#define FROMHEX(NAME, T) KFN unsigned long NAME(T v, char* buf, unsigned long cap, unsigned long* ret) { fsink s{buf, 0, cap}; *ret = integer_to_hex(v, s); return s.n; }
FROMHEX(k_tohex_i64, int64_t) FROMHEX(k_tohex_u64, uint64_t)
KFN int k_is_base10(const char* s, unsigned long n) { return is_base10(s, n); }
// floating-point text assembly (the digit generation itself - grisu3 / snprintf - is outside reach, DESIGN 1): digits * 10^k -> JSON number text
KFN unsigned long k_prettify(const char* digits, int length, int k, int min_exp, int max_exp, char* buf, unsigned long cap) { fsink s{buf, 0, cap}; prettify_string(digits, length, k, min_exp, max_exp, s); return s.n; }
KFN unsigned long k_dump_buffer(const char* b, unsigned long length, char decimal_point, char* buf, unsigned long cap) { fsink s{buf, 0, cap}; dump_buffer(b, length, decimal_point, s); return s.n; }
// write_double::operator() with an explicit precision: snprintf is a stub by contract in the harness (returns the would-be length, writes at most size-1 chars)
KFN unsigned long k_write_double(unsigned fmt, int precision, double val, char* buf, unsigned long cap) { write_double w((float_chars_format)fmt, precision); fsink s{buf, 0, cap}; w(val, s); return s.n; }
