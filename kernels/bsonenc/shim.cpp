// kernel "bsonenc": the REAL basic_bson_encoder (built by its real constructor over a fixed-array sink) driven through one document {"a": <scalar>} or an array
// element: begin_object / key / visit_<scalar> / end_object.  The scalar kind is a compile-time parameter of each entry point, the value is symbolic.
#include "vshim.h"
#include <jsoncons_ext/bson/bson_encoder.hpp>
using namespace jsoncons;
using benc_t = bson::basic_bson_encoder<bsink>;
struct bres { int ec; unsigned ec_at; unsigned long n; unsigned long stack; int depth; };
enum { B_UINT = 0, B_INT, B_DOUBLE, B_BOOL, B_NULL };
template <int SK, bool ARR> static inline void doc(unsigned long long val, unsigned char* out, unsigned long cap, bres* r) {
    RAWCTOR(benc_t, raw); benc_t* e = new (raw) benc_t(bsink{out, 0, cap});
    // capacity is installed field by field over TYPED static storage (the encoder is never destroyed): with reserve() / operator new the storage is an untyped byte object for CBMC,
    // reads of stack_.back().type_ and buffer_.size() do not constant-fold, and every later branch (object vs array element, flush loop) is explored symbolically (measured: > 17 GB)
    static unsigned char bb[64]; e->buffer_._M_impl._M_start = bb; e->buffer_._M_impl._M_finish = bb; e->buffer_._M_impl._M_end_of_storage = bb + 64;
    using SI = benc_t::stack_item; static rawobj_u<SI> ss[4]; SI* q = &ss[0].obj; e->stack_._M_impl._M_start = q; e->stack_._M_impl._M_finish = q; e->stack_._M_impl._M_end_of_storage = q + 4;
    std::error_code ec; ser_context ctx; unsigned at = 0;
    if constexpr (ARR) e->benc_t::visit_begin_array(semantic_tag::none, ctx, ec); else { e->benc_t::visit_begin_object(semantic_tag::none, ctx, ec); if (!ec) { at = 1; e->benc_t::visit_key(jsoncons::string_view("a", 1), ctx, ec); } }
    if (!ec) { at = 2;
        if constexpr (SK == B_UINT) e->benc_t::visit_uint64(val, semantic_tag::none, ctx, ec);
        else if constexpr (SK == B_INT) e->benc_t::visit_int64((int64_t)val, semantic_tag::none, ctx, ec);
        else if constexpr (SK == B_DOUBLE) { double d; __builtin_memcpy(&d, &val, 8); e->benc_t::visit_double(d, semantic_tag::none, ctx, ec); }
        else if constexpr (SK == B_BOOL) e->benc_t::visit_bool(val != 0, semantic_tag::none, ctx, ec);
        else e->benc_t::visit_null(semantic_tag::none, ctx, ec);
    }
    if (!ec) { at = 3; if constexpr (ARR) e->benc_t::visit_end_array(ctx, ec); else e->benc_t::visit_end_object(ctx, ec); }
    r->ec = ec ? ec.value() : 0; r->ec_at = at; r->n = e->sink_.n; r->stack = e->stack_.size(); r->depth = e->nesting_depth_;
}
#define BE(NAME, SK) \
KFN void k_bson_obj_##NAME(unsigned long long v, unsigned char* out, unsigned long cap, bres* r) { doc<SK, false>(v, out, cap, r); } \
KFN void k_bson_arr_##NAME(unsigned long long v, unsigned char* out, unsigned long cap, bres* r) { doc<SK, true>(v, out, cap, r); }
BE(uint, B_UINT) BE(int, B_INT) BE(double, B_DOUBLE) BE(bool, B_BOOL) BE(null, B_NULL)
