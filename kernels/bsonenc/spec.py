"""kernel bsonenc: the REAL basic_bson_encoder on one-element documents.  Serves C06 and C08 (BSON encoder: element type/width selection, document framing)."""
ASSUMPTIONS = ['bsonenc/h_doc: one element per document {"a": v} (array documents [v] name their elements through std::to_string: no verdict within 18 GB, outside the bound), semantic_tag::none, scalar kind concrete per job, value any 64-bit pattern; nested documents, strings, binary, decimal128/datetime tags are outside this kernel']
STUB_NOTES = ['bsink fixed-array Sink; buffer_ and stack_ pre-reserved (64 bytes / 4 entries), the reallocation path is cut with an assertion', 'std::vector<uint8_t>::_M_fill_insert (insert(end, n, value)) modelled by contract: appends n copies within the reserved capacity (its libstdc++ body moves a symbolic-size tail with memmove, which CBMC cannot carry)']
TRAP = r'_M_realloc_insert'
STUBS = ['_ZNSt6vectorIhSaIhEE14_M_fill_insertEN9__gnu_cxx17__normal_iteratorIPhS1_EEmRKh']
BV = '_ZN8jsoncons4bson18basic_bson_encoderI5bsinkSaIcEE12before_valueEh'
RI = '_ZNSt6vectorIhSaIhEE15_M_range_insertIN9__gnu_cxx17__normal_iteratorIPcNSt7__cxx1112basic_stringIcSt11char_traitsIcESaIcEEEEEEEvNS4_IPhS1_EET_SF_St20forward_iterator_tag'
def jobs(tier):
    J = []
    # before_value()'s array-element branch (decimal index name via std::to_string + range insert) is infeasible inside {"a": v} but CBMC explores it symbolically; its loops are
    # bounded to 2 iterations - sound because the unwinding assertions of those loops are part of the query (they are UNSAT exactly because the branch is infeasible)
    us = ['%s.%d:2' % (BV, i) for i in (0, 1)] + ['%s.%d:2' % (RI, i) for i in (0, 1, 2)]
    for sk, skn in enumerate(('uint64', 'int64', 'double', 'bool', 'null')):
        J.append(dict(id='doc_obj_%s' % skn, harness='h_doc', props=['C06', 'C08'], unwind=20, unwindset=us, defs=dict(SK=sk, ARR=0), timeout=900, mem_gb=10,
                      desc='bson encoder on {"a": v}: well-formed document whose element reads back (signed little-endian int32/int64, double bits, bool, null) to the value, or the value is refused', bound='all 2^64 values' if sk < 3 else 'all values'))
    return J
