/* harness for kernel "bsonenc" (C06/C08, BSON encoder): one document {"a": v} / array [v] written by the real encoder is a well-formed BSON document
   (bsonspec.org) whose single element reads back - with an independent little-endian, SIGNED int32/int64 reference reader - to exactly v, or the encoder refuses */
#include "kernel.c"
#include "vharness.h"
#define NEED_THROWS
#include "vmodels.h"
#define CAP 32
#ifndef REPLAY
/* std::vector<uint8_t>::insert(pos, n, value) by contract: every call in bson_encoder.hpp appends at end() (asserted) within the reserved capacity (asserted) */
IRC_SIG__ZNSt6vectorIhSaIhEE14_M_fill_insertEN9__gnu_cxx17__normal_iteratorIPhS1_EEmRKh {
  /* libstdc++ layout: vector -> _Vector_base -> _Vector_impl -> _Vector_impl_data {start, finish, end_of_storage}; accessed through the typed fields (a cast to u8** would make
     CBMC lose field sensitivity on the whole encoder object and nothing after it would constant-propagate) */
#define VD (a0->f0.f0.f0)
  P(a1 == VD.f1, "vector model: insert position is end()"); P((u64)(VD.f2 - VD.f1) >= a2 && a2 <= 8, "vector model: insertion within the reserved capacity");
  ASSUME(a1 == VD.f1 && (u64)(VD.f2 - VD.f1) >= a2 && a2 <= 8);
  u8 x = *a3; for (int i = 0; i < 8; i++) if ((u64)i < a2) VD.f1[i] = x;
  VD.f1 += a2;
}
#endif
#ifndef SK
#define SK 0
#endif
#ifndef ARR
#define ARR 0
#endif
enum { B_UINT = 0, B_INT, B_DOUBLE, B_BOOL, B_NULL };
#define CALL2(a, b) k_bson_##a##_##b
#define CALL1(a, b) CALL2(a, b)
#if ARR
#define CK arr
#else
#define CK obj
#endif
#if SK == 0
#define SKN uint
#elif SK == 1
#define SKN int
#elif SK == 2
#define SKN double
#elif SK == 3
#define SKN bool
#else
#define SKN null
#endif
INPUT(u64, IN_v)
static u64 le(const u8* p, int w) { u64 a = 0; for (int i = 0; i < 8; i++) if (i < w) a |= (u64)p[i] << (8 * i); return a; }
HARNESS(h_doc) {
  HAVOC(IN_v);
#if SK == 3
  ASSUME(IN_v <= 1);
#endif
  u8 out[CAP]; memset(out, 0xee, CAP); struct S_struct_2ebres r; memset(&r, 0, sizeof r);
  CALL1(CK, SKN)(IN_v, out, CAP, &r);
  if (r.f0 != 0) {   /* refused: only a value outside BSON's domain may be refused, and nothing half-written reaches the sink */
    P(SK == B_UINT && IN_v > 0x7fffffffffffffffULL, "only an unsigned value above INT64_MAX (outside BSON's integer domain) is refused");
    P(r.f2 == 0, "a refused value writes nothing to the sink");
    WIT(1); return;
  }
  P(!(SK == B_UINT && IN_v > 0x7fffffffffffffffULL), "an unsigned value above INT64_MAX must not be written as if it fitted");
  u64 n = r.f2; ASSUME(n <= CAP);
  P(n >= 4 + 1 + 2 + 1 && le(out, 4) == n, "document: int32 total length equals the number of bytes written");
  ASSUME(n >= 8);
  P(out[n - 1] == 0, "document ends with 0x00");
  P(out[5] == (ARR ? '0' : 'a') && out[6] == 0, "element name is the key (array: decimal index \"0\"), NUL-terminated");
  u8 t = out[4]; u64 pl = n - 8;   /* payload length */
  if (SK == B_UINT || SK == B_INT) {
    P((t == 0x10 && pl == 4) || (t == 0x12 && pl == 8), "integer element: int32 (0x10, 4 bytes) or int64 (0x12, 8 bytes)");
    if (t == 0x10 && pl == 4) { s64 d = (s64)(s32)(u32)le(out + 7, 4); P(SK == B_UINT ? (d >= 0 && (u64)d == IN_v) : d == (s64)IN_v, "int32 element (signed, little-endian) reads back to the value"); }
    if (t == 0x12 && pl == 8) { s64 d = (s64)le(out + 7, 8); P(SK == B_UINT ? (d >= 0 && (u64)d == IN_v) : d == (s64)IN_v, "int64 element (signed, little-endian) reads back to the value"); }
  } else if (SK == B_DOUBLE) { P(t == 0x01 && pl == 8 && le(out + 7, 8) == IN_v, "double element: 8 bytes little-endian, bit for bit");
  } else if (SK == B_BOOL) { P(t == 0x08 && pl == 1 && out[7] == IN_v, "boolean element: one byte 0/1");
  } else P(t == 0x0a && pl == 0, "null element: no payload");
  P(r.f3 == 0 && r.f4 == 0, "document closed: stack empty, depth 0");
  WIT(SK == B_UINT || SK == B_INT ? (t == 0x12 && IN_v != 0) : 1);
}
