// jrecvis.h - recording basic_json_visitor<char> shared by JSON-side kernels (events into a fixed array, first 8 string bytes included)
#ifndef JRECVIS_H
#define JRECVIS_H
#include <jsoncons/json_visitor.hpp>
using namespace jsoncons;
struct jev { unsigned char kind; unsigned char tag; unsigned short len; unsigned long long bits; unsigned char str[8]; };
enum { J_NONE = 0, J_BEGIN_OBJECT, J_END_OBJECT, J_BEGIN_ARRAY, J_END_ARRAY, J_KEY, J_NULL, J_BOOL, J_STRING, J_UINT, J_INT, J_DOUBLE, J_HALF, J_BYTES };
struct jrec final : basic_json_visitor<char> {
    jev* out; unsigned n; unsigned cap;
    jrec(jev* o, unsigned c) : out(o), n(0), cap(c) {}
    void put(unsigned char k, semantic_tag t, unsigned long long b, const char* s = nullptr, unsigned long l = 0) {
        if (n < cap) { jev& e = out[n]; e.kind = k; e.tag = (unsigned char)t; e.bits = b; e.len = (unsigned short)l; for (unsigned i = 0; i < 8; ++i) e.str[i] = (s && i < l) ? (unsigned char)s[i] : 0; }
        n++;
    }
    void visit_flush() override {}
    bool visit_begin_object(semantic_tag t, const ser_context&, std::error_code&) override { put(J_BEGIN_OBJECT, t, 0); return true; }
    bool visit_end_object(const ser_context&, std::error_code&) override { put(J_END_OBJECT, semantic_tag::none, 0); return true; }
    bool visit_begin_array(semantic_tag t, const ser_context&, std::error_code&) override { put(J_BEGIN_ARRAY, t, 0); return true; }
    bool visit_end_array(const ser_context&, std::error_code&) override { put(J_END_ARRAY, semantic_tag::none, 0); return true; }
    bool visit_key(const string_view_type& s, const ser_context&, std::error_code&) override { put(J_KEY, semantic_tag::none, 0, s.data(), s.size()); return true; }
    bool visit_null(semantic_tag t, const ser_context&, std::error_code&) override { put(J_NULL, t, 0); return true; }
    bool visit_bool(bool v, semantic_tag t, const ser_context&, std::error_code&) override { put(J_BOOL, t, v); return true; }
    bool visit_string(const string_view_type& s, semantic_tag t, const ser_context&, std::error_code&) override { put(J_STRING, t, 0, s.data(), s.size()); return true; }
    bool visit_byte_string(const byte_string_view&, semantic_tag t, const ser_context&, std::error_code&) override { put(J_BYTES, t, 0); return true; }
    bool visit_uint64(uint64_t v, semantic_tag t, const ser_context&, std::error_code&) override { put(J_UINT, t, v); return true; }
    bool visit_int64(int64_t v, semantic_tag t, const ser_context&, std::error_code&) override { put(J_INT, t, (unsigned long long)v); return true; }
    bool visit_half(uint16_t v, semantic_tag t, const ser_context&, std::error_code&) override { put(J_HALF, t, v); return true; }
    bool visit_double(double v, semantic_tag t, const ser_context&, std::error_code&) override { unsigned long long b; __builtin_memcpy(&b, &v, 8); put(J_DOUBLE, t, b); return true; }
};
#endif
