// kernel "pjopt": the REAL pretty-printing basic_json_encoder, built by its REAL constructor from json_options whose layout options are CONCRETE per build variant
// (COMMA / COLON = spaces_option 0..3), driven through [v, v] and {"a": v}: the separators the constructor derives from the options must be the ones written.
#include "vshim.h"
#include <jsoncons/json_encoder.hpp>
using namespace jsoncons;
using pj_t = basic_json_encoder<char, fsink>;
#ifndef COMMA
#define COMMA 1
#endif
#ifndef COLON
#define COLON 1
#endif
struct pres { int ec; unsigned long n; };
template <bool OBJ> static inline void run(unsigned long long a, unsigned long long b, char* buf, unsigned long cap, pres* r) {
    json_options o; o.spaces_around_comma((spaces_option)COMMA).spaces_around_colon((spaces_option)COLON).indent_size(0)
        .object_array_line_splits(line_split_kind::same_line).array_array_line_splits(line_split_kind::same_line).array_object_line_splits(line_split_kind::same_line).object_object_line_splits(line_split_kind::same_line);
    RAWCTOR(pj_t, raw); pj_t* e = new (raw) pj_t(fsink{buf, 0, cap}, o); e->stack_.reserve(4);
    std::error_code ec; ser_context ctx;
    if constexpr (OBJ) {
        e->pj_t::visit_begin_object(semantic_tag::none, ctx, ec);
        if (!ec) e->pj_t::visit_key(jsoncons::string_view("a", 1), ctx, ec);
        if (!ec) e->pj_t::visit_uint64(a, semantic_tag::none, ctx, ec);
        if (!ec) e->pj_t::visit_key(jsoncons::string_view("b", 1), ctx, ec);
        if (!ec) e->pj_t::visit_bool(b != 0, semantic_tag::none, ctx, ec);
        if (!ec) e->pj_t::visit_end_object(ctx, ec);
    } else {
        e->pj_t::visit_begin_array(semantic_tag::none, ctx, ec);
        if (!ec) e->pj_t::visit_uint64(a, semantic_tag::none, ctx, ec);
        if (!ec) e->pj_t::visit_bool(b != 0, semantic_tag::none, ctx, ec);
        if (!ec) e->pj_t::visit_null(semantic_tag::none, ctx, ec);
        if (!ec) e->pj_t::visit_end_array(ctx, ec);
    }
    r->ec = ec ? ec.value() : 0; r->n = e->sink_.n;
}
KFN void k_pj_arr(unsigned long long a, unsigned long long b, char* buf, unsigned long cap, pres* r) { run<false>(a, b, buf, cap, r); }
KFN void k_pj_obj(unsigned long long a, unsigned long long b, char* buf, unsigned long cap, pres* r) { run<true>(a, b, buf, cap, r); }
