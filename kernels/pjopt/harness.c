/* harness for kernel "pjopt" (C01/C08, pretty printer layout options): with spaces_around_comma / spaces_around_colon = any of the four spaces_option values
   (concrete per job) the pretty encoder's text for [a, b, null] and {"a": a, "b": b} is the RFC 8259 text of those values once insignificant whitespace is
   removed, and every ',' / ':' carries exactly the spaces the option names */
#include "kernel.c"
#include "vharness.h"
#define NEED_THROWS
#define NEED_STRING_NOGROW
#include "vmodels.h"
#ifndef COMMA
#define COMMA 1
#endif
#ifndef COLON
#define COLON 1
#endif
#ifndef OBJ
#define OBJ 0
#endif
#define CAP 48
INPUT(u64, IN_a) INPUT(u32, IN_b)
#ifndef REPLAY
u8* _ZNSt7__cxx1112basic_stringIcSt11char_traitsIcESaIcEE9_M_createERmm(VSTR0* t, u64* c, u64 o) { P(0, "string model: capacity bound (15, SSO) exceeded"); PATH_END(); return 0; }
#endif
HARNESS(h_pj) {
  HAVOC(IN_a); HAVOC(IN_b); ASSUME(IN_a < 1000 && IN_b <= 1);
  u8 buf[CAP]; memset(buf, 0, CAP); struct S_struct_2epres r; memset(&r, 0, sizeof r); IRC_THROW_ALLOWED = 0;
#if OBJ
  k_pj_obj(IN_a, IN_b, buf, CAP, &r);
#else
  k_pj_arr(IN_a, IN_b, buf, CAP, &r);
#endif
  P(r.f0 == 0 && r.f1 <= CAP, "no error, bounded output"); ASSUME(r.f1 <= CAP);
  /* expected significant characters */
  u8 ex[40]; unsigned ne = 0; u8 dg[3]; unsigned nd = 0; { u64 v = IN_a; if (v >= 100) dg[nd++] = '0' + v / 100; if (v >= 10) dg[nd++] = '0' + (v / 10) % 10; dg[nd++] = '0' + v % 10; }
#if OBJ
  ex[ne++] = '{'; ex[ne++] = '"'; ex[ne++] = 'a'; ex[ne++] = '"'; ex[ne++] = ':'; for (unsigned i = 0; i < 3; i++) if (i < nd) ex[ne++] = dg[i];
  ex[ne++] = ','; ex[ne++] = '"'; ex[ne++] = 'b'; ex[ne++] = '"'; ex[ne++] = ':';
  if (IN_b) { ex[ne++] = 't'; ex[ne++] = 'r'; ex[ne++] = 'u'; ex[ne++] = 'e'; } else { ex[ne++] = 'f'; ex[ne++] = 'a'; ex[ne++] = 'l'; ex[ne++] = 's'; ex[ne++] = 'e'; }
  ex[ne++] = '}';
#else
  ex[ne++] = '['; for (unsigned i = 0; i < 3; i++) if (i < nd) ex[ne++] = dg[i]; ex[ne++] = ',';
  if (IN_b) { ex[ne++] = 't'; ex[ne++] = 'r'; ex[ne++] = 'u'; ex[ne++] = 'e'; } else { ex[ne++] = 'f'; ex[ne++] = 'a'; ex[ne++] = 'l'; ex[ne++] = 's'; ex[ne++] = 'e'; }
  ex[ne++] = ','; ex[ne++] = 'n'; ex[ne++] = 'u'; ex[ne++] = 'l'; ex[ne++] = 'l'; ex[ne++] = ']';
#endif
  unsigned q = 0; int same = 1, spacing = 1;
  for (int i = 0; i < CAP; i++) if ((u64)i < r.f1) { u8 c = buf[i];
    if (c == ' ' || c == '\n') continue;                      /* insignificant whitespace (RFC 8259 section 2) between tokens only: no token here contains a space */
    if (q < ne && ex[q] == c) q++; else same = 0;
    if (c == ',' || c == ':') { int opt = c == ',' ? COMMA : COLON;
      int before = i > 0 && buf[i - 1] == ' ', after = (u64)(i + 1) < r.f1 && buf[i + 1] == ' ';
      if (before != (opt == 2 || opt == 3) || after != (opt == 1 || opt == 3)) spacing = 0; } }
  P(same && q == ne, "with whitespace removed the text is exactly the RFC 8259 rendering of the values (no separator lost, replaced or duplicated)");
  P(spacing, "every ',' and ':' carries exactly the spaces spaces_around_comma / spaces_around_colon name");
  WIT(IN_a > 99 && IN_b == 1);
}
