"""kernel pjopt: the REAL pretty-printing basic_json_encoder built by its real constructor from json_options with concrete layout options.  Serves C01 and C08 (pretty printer: separators under every spaces_around_comma / spaces_around_colon combination)."""
ASSUMPTIONS = ['pjopt/h_pj: spaces_around_comma and spaces_around_colon concrete per job (all 16 combinations), indent 0, all line_split options same_line; documents [a, b, null] and {"a": a, "b": b} with a < 1000, b boolean; other layout options (indent, line splits, line length limit) and other value kinds are outside this kernel']
STUB_NOTES = ['std::string on the SSO path (_M_mutate / _M_create cut with an assertion)', 'localeconv modelled ("C" locale)']
TRAP = r'_M_realloc_insert'
STUBS = ['_ZNSt7__cxx1112basic_stringIcSt11char_traitsIcESaIcEE9_M_mutateEmmPKcm']
def jobs(tier):
    J = []
    import os
    if not os.environ.get('VERIF_EXPERIMENTAL'):
        return J   # measured: no verdict in 10 min per job; the constructor zero-initialises runs of members with memset(28 / 108 bytes), which turns the encoder object into a byte array for CBMC (DESIGN 6.3); not run by registered checks, nothing claimed
    for c in range(4):
        for k in range(4):
            for o in (0, 1):
                if tier == 'quick' and not (c == k or (c + k) % 4 == 3 or o == 0 and k == 1):
                    continue
                J.append(dict(id='pj_%s_c%d_k%d' % ('obj' if o else 'arr', c, k), harness='h_pj', props=['C01', 'C08'], unwind=50, defs=dict(COMMA=c, COLON=k, OBJ=o), shim_defs=dict(COMMA=c, COLON=k), timeout=900, mem_gb=8,
                              desc='pretty encoder with spaces_around_comma=%d, spaces_around_colon=%d on %s: RFC 8259 text of the values once whitespace is removed; separators carry exactly the named spaces' % (c, k, '{"a":a,"b":b}' if o else '[a,b,null]'), bound='a < 1000, b boolean'))
    return J
