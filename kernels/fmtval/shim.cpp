// kernel "fmtval": the JSON Schema format validators (format_validators.hpp) on arbitrary strings.  Serves C05: every string terminates, no out-of-bounds read,
// no undefined behaviour, no JSONCONS_UNREACHABLE / assertion (their accept sets are format semantics and are not claimed anywhere).
#include "vshim.h"
#include <jsoncons/json.hpp>
#include <jsoncons_ext/jsonschema/common/format_validators.hpp>
using namespace jsoncons;
KFN int k_fmt_ipv4(const char* s, unsigned long n) { return jsonschema::validate_ipv4_rfc2673(jsoncons::string_view(s, n)) ? 1 : 0; }
KFN int k_fmt_ipv6(const char* s, unsigned long n) { return jsonschema::validate_ipv6_rfc2373(jsoncons::string_view(s, n)) ? 1 : 0; }
KFN int k_fmt_hostname(const char* s, unsigned long n) { return jsonschema::validate_hostname_rfc1034(jsoncons::string_view(s, n)) ? 1 : 0; }
KFN int k_fmt_email(const char* s, unsigned long n) { return jsonschema::validate_email_rfc5322(jsoncons::string_view(s, n)) ? 1 : 0; }
KFN int k_fmt_datetime(const char* s, unsigned long n, unsigned type) { return jsonschema::validate_date_time_rfc3339(jsoncons::string_view(s, n), (jsonschema::date_time_type)type) ? 1 : 0; }
