"""kernel fmtval: jsonschema format validators (ipv4, ipv6, hostname, email, date-time/date/time) on arbitrary strings, plain and safety mode.  Serves C05."""
ASSUMPTIONS = ['fmtval/h_fmt: string length concrete per job, every byte symbolic; the string is an exact-size heap object']
STUB_NOTES = []
VS = {0: 'ipv4', 1: 'ipv6', 2: 'hostname', 3: 'email', 4: 'date_time', 5: 'date', 6: 'time'}
def jobs(tier):
    J = []
    t = tier == 'thorough'
    for v, name in VS.items():
        ns = {4: [0, 3, 10, 20] + ([11, 17, 22, 25] if t else []), 5: [0, 5, 10] + ([8, 11] if t else []), 6: [0, 5, 9] + ([8, 12, 14] if t else [])}.get(v, [0, 1, 3, 5] + ([7, 9] if t else []))
        for n in ns:
            acc = (v == 5 and n == 10) or (v == 4 and n == 20) or (v == 6 and n == 9) or (v == 0 and n >= 7) or (v == 2 and 1 <= n <= 9) or (v == 3 and n >= 3) or (v == 1 and n >= 3)
            d = dict(N=n, V=v)
            if acc: d['WACC'] = 1
            for safety in (False, True):
                J.append(dict(id='%s_n%d%s' % (name, n, '_safety' if safety else ''), harness='h_fmt', props=['C05'], unwind=n + 12, defs=d, timeout=600, mem_gb=6, safety=safety,
                              desc='validate_%s: terminates with a verdict, no out-of-bounds read, no UB, no unreachable/assert%s' % (name, ' [safety mode]' if safety else ''), bound='all strings of length %d' % n))
    return J
