/* harness for kernel "fmtval" (C05): JSON Schema format validators never misbehave on any string */
#include "kernel.c"
#include "vharness.h"
#define NEED_THROWS
#include "vmodels.h"
#ifndef N
#define N 4
#endif
#ifndef V
#define V 0
#endif
INPUT_ARR(u8, IN_s, N)
HARNESS(h_fmt) {
  HAVOC_ARR(IN_s, N);
  u8* s = malloc(N ? N : 1); ASSUME(s != 0); for (int i = 0; i < N; i++) s[i] = IN_s[i];   /* exact-size heap object: any read past the string is a bounds violation */
  IRC_THROW_ALLOWED = 0; u32 r;
#if V == 0
  r = k_fmt_ipv4(s, N);
#elif V == 1
  r = k_fmt_ipv6(s, N);
#elif V == 2
  r = k_fmt_hostname(s, N);
#elif V == 3
  r = k_fmt_email(s, N);
#else
  r = k_fmt_datetime(s, N, V - 4);
#endif
  P(r <= 1, "the validator returns a verdict (no unreachable code, assertion, out-of-bounds read or undefined behaviour on the way)");
#ifdef WACC
  WIT(r == 1);
#else
  WIT(r == 0);
#endif
}
