#include <jsoncons/json.hpp>
#include <jsoncons_ext/jsonpath/jsonpath.hpp>
#include <iostream>
using namespace jsoncons;
int main() {
    json doc = json::parse(R"([{"k":"first value long enough to be on the heap"},{"k":"second value long enough to be on the heap"},{"k":"third value long enough to be on the heap"}])");
    jsonpath::json_replace(doc, "$[*].k", json("REPLACEMENT STRING LONG ENOUGH FOR THE HEAP"));
    std::cout << doc << "\n";
    int bad = 0;
    for (auto& e : doc.array_range()) if (e["k"].as<std::string>() != "REPLACEMENT STRING LONG ENOUGH FOR THE HEAP") bad++;
    json doc2 = json::parse(R"([{"k":1},{"k":2},{"k":3}])");
    jsonpath::json_replace(doc2, "$[*].k", std::string("REPLACEMENT STRING LONG ENOUGH FOR THE HEAP"));
    std::cout << doc2 << "\n";
    for (auto& e : doc2.array_range()) if (e["k"].as<std::string>() != "REPLACEMENT STRING LONG ENOUGH FOR THE HEAP") bad++;
    std::cout << "bad=" << bad << "\n";
    return bad ? 1 : 0;
}
