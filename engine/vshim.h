// vshim.h - included FIRST by every kernel shim.  Overrides the three jsoncons control macros so that
// "documented error channel" (THROW), "internal assertion" (ASSERT) and "unreachable" stay distinguishable
// after lowering with -fno-exceptions.  No source hooks in /repo are needed (include guards keep the override).
#ifndef VSHIM_H
#define VSHIM_H
#include <jsoncons/config/jsoncons_config.hpp>
extern "C" {
[[noreturn]] void irc_throw(const char* what);
[[noreturn]] void irc_assert_fail(const char* what);
[[noreturn]] void irc_unreachable_hit(void);
}
#undef JSONCONS_THROW
#define JSONCONS_THROW(e) irc_throw(#e)
#undef JSONCONS_RETHROW
#define JSONCONS_RETHROW irc_throw("rethrow")
#undef JSONCONS_ASSERT
#define JSONCONS_ASSERT(x) if (!(x)) { irc_assert_fail(#x); }
#undef JSONCONS_UNREACHABLE
#define JSONCONS_UNREACHABLE() irc_unreachable_hit()
// Raw, zeroed, correctly TYPED storage for an object whose constructor/destructor we do not want to run (DESIGN 2.1).
// A union member keeps the LLVM type of the storage equal to the class, so the generated C stays field-sensitive for CBMC.
template <class T> union rawobj_u { T obj; char c; rawobj_u() : c(0) {} ~rawobj_u() {} };
#define RAWSTORE(T, name) rawobj_u<T> name##_u; __builtin_memset((void*)&name##_u, 0, sizeof(name##_u)); void* name = (void*)&name##_u
#define RAWOBJ(T, name) rawobj_u<T> name##_u; __builtin_memset((void*)&name##_u, 0, sizeof(name##_u)); T* name = &name##_u.obj
// storage for an object that IS built by its real constructor: no memset (a memset would turn the object into a byte array for CBMC and defeat constant propagation of its fields)
#define RAWCTOR(T, name) rawobj_u<T> name##_u; void* name = (void*)&name##_u
#ifdef IRC_REPLAY
// native replay build only: the same allocation meter the CBMC model of operator new keeps (C10 harnesses read irc_alloc_max)
#include <cstdlib>
#include <new>
extern "C" { unsigned long long irc_alloc_max; }
void* operator new(std::size_t n) { if (n > irc_alloc_max) irc_alloc_max = n; void* p = std::malloc(n ? n : 1); if (!p) std::abort(); return p; }
void* operator new[](std::size_t n) { if (n > irc_alloc_max) irc_alloc_max = n; void* p = std::malloc(n ? n : 1); if (!p) std::abort(); return p; }
void operator delete(void* p) noexcept { std::free(p); }
void operator delete[](void* p) noexcept { std::free(p); }
void operator delete(void* p, std::size_t) noexcept { std::free(p); }
void operator delete[](void* p, std::size_t) noexcept { std::free(p); }
#endif
#define KFN extern "C" __attribute__((noinline))
// fixed-array sink usable wherever the library is templated on Sink/Result/Container (push_back/append)
struct fsink {
    typedef char value_type;
    char* p; unsigned long n; unsigned long cap;
    void push_back(char c) { if (n < cap) p[n] = c; n++; }
    void append(const char* s, unsigned long len) { for (unsigned long i = 0; i < len; ++i) push_back(s[i]); }
    void append(unsigned long cnt, char c) { for (unsigned long i = 0; i < cnt; ++i) push_back(c); }
    void flush() {}
};
struct bsink {
    typedef unsigned char value_type;
    unsigned char* p; unsigned long n; unsigned long cap;
    void push_back(unsigned char c) { if (n < cap) p[n] = c; n++; }
    void append(const unsigned char* s, unsigned long len) { for (unsigned long i = 0; i < len; ++i) push_back(s[i]); }
    void flush() {}
};
#endif
