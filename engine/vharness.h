/* vharness.h - included by every harness AFTER "kernel.c".
   One source, two builds:
     (a) CBMC:   inputs are nondeterministic, P() is an assertion, ASSUME() constrains the solver;
     (b) REPLAY: the same harness compiled natively against the REAL shim (clang++ build of the real
         jsoncons templates with ASan+UBSan); inputs are loaded by name from the counterexample, P() prints
         REPRODUCED and exits 1.  So the predicate that is replayed is exactly the predicate that was decided. */
#ifndef VHARNESS_H
#define VHARNESS_H
#ifdef REPLAY
#include <stdio.h>
#include <stdlib.h>
#include <string.h>
void rp_reg_input(const char* name, void* addr, unsigned elem, unsigned count);
void rp_reg_harness(const char* name, void (*fn)(void));
#define INPUT(T, name) T name; __attribute__((constructor)) static void rpreg_##name(void) { rp_reg_input(#name, &name, sizeof(T), 1); }
#define INPUT_ARR(T, name, N) T name[(N) > 0 ? (N) : 1]; __attribute__((constructor)) static void rpreg_##name(void) { rp_reg_input(#name, name, sizeof(T), (N)); }
#define HAVOC(x) ((void)0)
#define HAVOC_ARR(a, n) ((void)0)
#define HAVOC_OBJ(a) ((void)0)
#define HARNESS(name) void name(void); __attribute__((constructor)) static void rpregh_##name(void) { rp_reg_harness(#name, name); } void name(void)
#define P(c, msg) do { if (!(c)) { printf("REPRODUCED: %s\n", msg); fflush(stdout); exit(1); } } while (0)
#define ASSUME(c) do { if (!(c)) { printf("replay: input violates harness assumption %s\n", #c); fflush(stdout); exit(0); } } while (0)
#ifdef WITNESS
/* native run of a witness input (translation validation at one concrete point per harness): the witness condition must be reached on the real build too */
#define WIT(c) do { if (c) { printf("WITNESS-NATIVE reached\n"); fflush(stdout); exit(3); } } while (0)
#else
#define WIT(c) ((void)0)
#endif
#define PATH_END() exit(0)
extern unsigned long long irc_alloc_max;   /* defined by the replay build of the shim (operator new meter) */
#else
#define INPUT(T, name) T name;
#define INPUT_ARR(T, name, N) T name[(N) > 0 ? (N) : 1];
#define HAVOC(x) do { __typeof__(x) nd_tmp_; (x) = nd_tmp_; } while (0)
#define HAVOC_ARR(a, n) do { for (unsigned hv_i_ = 0; hv_i_ < (unsigned)(n); hv_i_++) { __typeof__((a)[0]) nd_tmp_; (a)[hv_i_] = nd_tmp_; } } while (0)
/* loop-free havoc of a whole input array (keeps the global --unwind small when the harness also contains bounded recursion) */
#define HAVOC_OBJ(a) __CPROVER_havoc_object(a)
#define HARNESS(name) void name(void)
#define ASSUME(c) __CPROVER_assume(c)
#define PATH_END() __CPROVER_assume(0)
#ifdef WITNESS
#define P(c, msg) ((void)0)
#define WIT(c) __CPROVER_assert(!(c), "WITNESS reach")
#else
#define P(c, msg) __CPROVER_assert((c), msg)
#define WIT(c) ((void)0)
#endif
#endif
/* exception channel: the harness decides BEFORE the call whether a throw is a legal outcome */
int IRC_THROW_ALLOWED;
void irc_throw(u8* what) { P(IRC_THROW_ALLOWED, "exception thrown where the property allows none"); PATH_END(); }
void irc_assert_fail(u8* what) { P(0, "JSONCONS_ASSERT tripped (internal assertion)"); PATH_END(); }
void irc_unreachable_hit(void) { P(0, "JSONCONS_UNREACHABLE executed"); PATH_END(); }
#ifndef REPLAY
void _ZSt9terminatev(void) { P(0, "std::terminate called"); PATH_END(); }
#endif
#endif
