#!/usr/bin/env python3
"""vf: driver library for solver-based checking of jsoncons kernels.

shim.cpp --clang++-14--> kernel.ll --irc--> kernel.c --cbmc(+kissat)--> verdicts
On FAILURE: trace -> IN_* inputs -> replay.cpp against the real headers (ASan+UBSan).
See /verif/DESIGN.md section 2.
"""
import os, sys, re, json, time, subprocess, hashlib, importlib.util, shutil, threading, resource
from concurrent.futures import ThreadPoolExecutor, as_completed

ROOT = os.path.dirname(os.path.dirname(os.path.abspath(__file__)))
REPO = os.environ.get('VERIF_REPO', '/repo')
INC = os.path.join(REPO, 'include')
BUILD_ROOT = os.path.join(ROOT, 'build')
BUILD = BUILD_ROOT  # re-pointed per run: build/<property>-<tier>, wiped at the start of every run (nothing is reused across runs)
KERNELS = os.path.join(ROOT, 'kernels')
ENGINE = os.path.join(ROOT, 'engine')

CLANG_FLAGS = ['-std=c++17', '-O1', '-fno-exceptions', '-fno-rtti', '-fno-access-control',
               '-fno-vectorize', '-fno-slp-vectorize', '-fno-unroll-loops',
               '-S', '-emit-llvm', '-I' + INC, '-I' + ENGINE, '-DJSONCONS_VERIF', '-D_GLIBCXX_ASSERTIONS', '-w']
SAFETY_FLAGS = ['-fsanitize=signed-integer-overflow,shift,unreachable,bool,enum,bounds,integer-divide-by-zero,null',
                '-fsanitize-trap=all']
CBMC_BASE = ['--unwinding-assertions', '--drop-unused-functions', '--no-malloc-may-fail',
             '--json-ui', '--trace']
REPLAY_FLAGS = ['-std=c++17', '-O1', '-g', '-fsanitize=address,undefined', '-fno-sanitize-recover=all',
                '-fno-omit-frame-pointer', '-I' + INC, '-I' + ENGINE, '-w']

MEM_BUDGET_GB = 52
_mem_lock = threading.Condition()
_mem_used = [0.0]


class Broken(Exception):
    """tooling failure (exit 2), never a VIOLATION"""


def sh(cmd, timeout=None, cwd=None, mem_gb=None, env=None, stdin=None):
    def lim():
        os.setsid()
        if mem_gb:
            b = int(mem_gb * (1 << 30))
            resource.setrlimit(resource.RLIMIT_AS, (b, b))
    t0 = time.time()
    p = subprocess.Popen(cmd, cwd=cwd, stdout=subprocess.PIPE, stderr=subprocess.PIPE, preexec_fn=lim, env=env,
                         stdin=subprocess.PIPE if stdin is not None else subprocess.DEVNULL)
    try:
        out, err = p.communicate(stdin, timeout=timeout)
        to = False
    except subprocess.TimeoutExpired:
        try:
            os.killpg(p.pid, 9)
        except Exception:
            pass
        out, err = p.communicate()
        to = True
    if to or p.returncode not in (0, 10):
        # a killed cbmc leaves its CNF for the external SAT solver behind (up to several GB each, named after its pid)
        import glob
        for f in glob.glob(os.path.join(os.environ.get('TMPDIR', '/tmp'), 'external-sat%d.*' % p.pid)):
            try:
                os.remove(f)
            except OSError:
                pass
    return dict(rc=p.returncode, out=out.decode('utf8', 'replace'), err=err.decode('utf8', 'replace'),
                timeout=to, wall=time.time() - t0)


def load_spec(kname):
    path = os.path.join(KERNELS, kname, 'spec.py')
    sp = importlib.util.spec_from_file_location('spec_' + kname, path)
    mod = importlib.util.module_from_spec(sp)
    sp.loader.exec_module(mod)
    return mod


def all_kernels():
    return sorted(d for d in os.listdir(KERNELS) if os.path.exists(os.path.join(KERNELS, d, 'spec.py')))


# ------------------------------------------------------------------ build
def build_kernel(kname, spec, variant='plain'):
    """clang -> IR -> irc -> C.  variant: plain | safety.  Returns info dict."""
    kd = os.path.join(KERNELS, kname)
    bd = os.path.join(BUILD, kname, variant)
    os.makedirs(bd, exist_ok=True)
    ll = os.path.join(bd, 'kernel.ll')
    flags = list(CLANG_FLAGS) + list(getattr(spec, 'CLANG_EXTRA', []))
    base, _, extra = variant.partition('+')   # variant = plain|safety[+NAME=VALUE,...]: per-job compile-time parameters of the shim (e.g. the depth bound of a model DOM)
    if base == 'safety':
        flags += SAFETY_FLAGS
    for d in [x for x in extra.split(',') if x]:
        flags.append('-D' + d)
    t0 = time.time()
    r = sh(['clang++-14'] + flags + [os.path.join(kd, 'shim.cpp'), '-o', ll], timeout=600)
    if r['rc'] != 0:
        raise Broken('clang failed for %s/%s (the tree does not compile?):\n%s' % (kname, variant, r['err'][-3000:]))
    kc = os.path.join(bd, 'kernel.c')
    cmd = [sys.executable, os.path.join(ENGINE, 'irc.py'), ll, kc, '--entry-prefix', 'k_', '--info', os.path.join(bd, 'info.json')]
    os.makedirs(os.path.join(bd, 'protos'), exist_ok=True)
    cmd += ['--protos', os.path.join(bd, 'protos', 'kernel.c')]
    stubs = getattr(spec, 'STUBS', [])
    if stubs:
        cmd += ['--stub', ','.join(stubs)]
    if getattr(spec, 'TRAP', None):
        cmd += ['--trap', spec.TRAP]
    r = sh(cmd, timeout=600)
    if r['rc'] != 0:
        raise Broken('irc failed for %s/%s:\n%s' % (kname, variant, (r['err'] + r['out'])[-3000:]))
    info = json.load(open(os.path.join(bd, 'info.json')))
    info['build_s'] = round(time.time() - t0, 2)
    info['dir'] = bd
    return info


def selftest(kname, spec, info, seed):
    """differential self-test: gcc-compiled generated C vs g++ build of the same shim (translation validation)."""
    kd = os.path.join(KERNELS, kname)
    st = os.path.join(kd, 'selftest.cpp')
    if not os.path.exists(st):
        return dict(ran=False)
    bd = info['dir']
    cxx = ['g++', '-std=c++17', '-O1', '-I' + INC, '-I' + ENGINE, '-w', '-DJSONCONS_VERIF', '-D_GLIBCXX_ASSERTIONS', '-DIRC_NATIVE']
    cmds = [
        cxx + ['-fno-exceptions', '-fno-rtti', '-fno-access-control', '-c', os.path.join(kd, 'shim.cpp'), '-o', os.path.join(bd, 'shim.o')],
        ['gcc', '-O1', '-w', '-DIRC_NATIVE', '-I' + ENGINE, '-I' + kd, '-c', os.path.join(bd, 'kernel.c'), '-o', os.path.join(bd, 'kernel_c.o')],
    ]
    natives = os.path.join(kd, 'natives.c')
    for c in cmds:
        r = sh(c, timeout=600)
        if r['rc'] != 0:
            raise Broken('selftest build failed: %s\n%s' % (' '.join(c), r['err'][-3000:]))
    # prefix entry symbols of the generated C with c_
    redefs = []
    for e in info['entries']:
        redefs += ['--redefine-sym', '%s=c_%s' % (e, e)]
    r = sh(['objcopy'] + redefs + [os.path.join(bd, 'kernel_c.o')], timeout=60)
    if r['rc'] != 0:
        raise Broken('objcopy failed: ' + r['err'])
    objs = [os.path.join(bd, 'shim.o'), os.path.join(bd, 'kernel_c.o')]
    if os.path.exists(natives):
        r = sh(['gcc', '-O1', '-w', '-DIRC_NATIVE', '-I' + ENGINE, '-I' + bd, '-c', natives, '-o', os.path.join(bd, 'natives.o')], timeout=120)
        if r['rc'] != 0:
            raise Broken('natives build failed: ' + r['err'][-2000:])
        objs.append(os.path.join(bd, 'natives.o'))
    exe = os.path.join(bd, 'selftest')
    r = sh(cxx + [st] + objs + ['-o', exe], timeout=600)
    if r['rc'] != 0:
        raise Broken('selftest link failed:\n' + r['err'][-3000:])
    r = sh([exe, str(seed)], timeout=600)
    m = re.search(r'cases=(\d+) mismatches=(\d+)', r['out'])
    if r['rc'] != 0 or not m or int(m.group(2)) != 0:
        raise Broken('translation self-test MISMATCH for %s (generated C disagrees with the g++ build of the same shim): %s %s'
                     % (kname, r['out'][-1500:], r['err'][-1500:]))
    return dict(ran=True, cases=int(m.group(1)), mismatches=0, wall_s=round(r['wall'], 2))


# ------------------------------------------------------------------ cbmc
def _acquire(gb):
    with _mem_lock:
        while _mem_used[0] + gb > MEM_BUDGET_GB and _mem_used[0] > 0:
            _mem_lock.wait()
        _mem_used[0] += gb


def _release(gb):
    with _mem_lock:
        _mem_used[0] -= gb
        _mem_lock.notify_all()


def _val(v):
    if 'binary' in v:
        return int(v['binary'], 2)
    if 'elements' in v:
        return [_val(e['value']) for e in v['elements']]
    if 'members' in v:
        return {m['name']: _val(m['value']) for m in v['members']}
    return v.get('data')


def extract_inputs(trace):
    ins = {}
    for s in trace:
        if s.get('stepType') != 'assignment':
            continue
        lhs = s.get('lhs', '')
        m = re.match(r'^(IN_\w+)((?:\[\d+[a-z]*\])*)$', lhs)
        if not m:
            continue
        name = m.group(1)
        idx = [int(x) for x in re.findall(r'\[(\d+)', m.group(2))]
        v = _val(s['value'])
        if not idx:
            ins[name] = v
        else:
            cur = ins.setdefault(name, [])
            for k, i in enumerate(idx):
                while len(cur) <= i:
                    cur.append(0 if k == len(idx) - 1 else [])
                if k == len(idx) - 1:
                    cur[i] = v
                else:
                    if not isinstance(cur[i], list):
                        cur[i] = []
                    cur = cur[i]
    return ins


def run_cbmc(job, info, witness=False):
    """returns dict(status: 'ok'|'fail'|'undecided'|'error', props:int, failed:[...], inputs, wall, ...)"""
    kd = os.path.join(KERNELS, job['kernel'])
    defs = dict(job.get('defs', {}))
    if witness:
        defs['WITNESS'] = 1
    for kf in job.get('exclude_findings', []):
        defs['KF_' + kf] = 1
    cmd = ['cbmc', os.path.join(kd, job.get('harness_file', 'harness.c')), '-I', info['dir'], '-I', ENGINE, '-I', kd,
           '--function', job['harness'], '--unwind', str(job['unwind'])] + CBMC_BASE
    ob = job.get('object_bits', 12)
    cmd += ['--object-bits', str(ob), '-D', 'IRC_OBJECT_BITS=%d' % ob]
    for us in job.get('unwindset', []):
        cmd += ['--unwindset', us]
    for k, v in defs.items():
        cmd += ['-D', '%s=%s' % (k, v)]
    be = job.get('backend', 'kissat')
    if be == 'kissat':
        cmd += ['--external-sat-solver', 'kissat']
    elif be == 'cadical':
        cmd += ['--sat-solver', 'cadical']
    elif be == 'minisat':
        pass
    elif be in ('z3', 'cvc5'):
        cmd += ['--' + be]
    cmd += job.get('cbmc_extra', [])
    if witness:
        # check ONLY the witness assertion (everything else is sliced away): find its property id first
        r0 = sh([c for c in cmd if c != '--trace'] + ['--show-properties'], timeout=300, mem_gb=8)
        wid = None
        wids = []
        try:
            for x in json.loads(r0['out']):
                for pr in x.get('properties', []) if isinstance(x, dict) else []:
                    if pr.get('description', '').startswith('WITNESS'):
                        wid = pr['name']; wids.append(wid)
        except Exception:
            pass
        if wid is None:
            return dict(cmd=' '.join(cmd), wall=round(r0['wall'], 2), witness=True, status='error', why='no WITNESS assertion found in harness: ' + (r0['out'][-300:] + r0['err'][-300:]))
        for w in wids:   # a harness may have several witness points (one per outcome class); reaching any of them shows the harness is not vacuous
            cmd += ['--property', w]
    gb = job.get('mem_gb', 3)
    to = job.get('timeout', 300)
    if os.environ.get('VERIF_TIMEOUT_CAP'):
        to = min(to, int(os.environ['VERIF_TIMEOUT_CAP']))
    _acquire(gb)
    try:
        r = sh(cmd, timeout=to, mem_gb=max(gb * 1.5, 4))
    finally:
        _release(gb)
    res = dict(cmd=' '.join(cmd), wall=round(r['wall'], 2), witness=witness)
    if r['timeout']:
        res['status'] = 'undecided'
        res['why'] = 'timeout %ds' % to
        return res
    try:
        doc = json.loads(r['out'])
    except Exception:
        res['status'] = 'undecided' if r['rc'] in (-9, 137, -6, 134) or 'bad_alloc' in r['err'] or 'Out of memory' in r['out'] else 'error'
        res['why'] = 'no JSON from cbmc rc=%s: %s | %s' % (r['rc'], r['out'][-600:], r['err'][-600:])
        return res
    results = None
    msgs = []
    for x in doc:
        if 'result' in x:
            results = x['result']
        elif 'messageText' in x:
            msgs.append(x['messageText'])
    if results is None:
        txt = '\n'.join(msgs)
        res['status'] = 'error'
        res['why'] = 'cbmc gave no result: ' + txt[-1500:]
        return res
    res['props'] = len(results)
    if any(p.get('status') in ('ERROR', 'UNKNOWN') for p in results) or any(isinstance(x, dict) and x.get('cProverStatus') == 'error' for x in doc):
        # the decision procedure gave no verdict (e.g. the external SAT solver died under the memory limit: CBMC then ends with VERIFICATION ERROR and marks properties
        # ERROR/UNKNOWN).  That is neither a pass nor a counterexample: undecided.  (Found late: it made the cjson string jobs look like failures with an empty counterexample.)
        res['status'] = 'undecided'
        res['why'] = 'cbmc ended without a verdict (VERIFICATION ERROR / property status ERROR or UNKNOWN): solver failure, typically the memory limit'
        return res
    failed = []
    for p in results:
        if p['status'] not in ('SUCCESS',):
            f = dict(property=p['property'], description=p.get('description', ''), status=p['status'])
            if 'trace' in p:
                f['inputs'] = extract_inputs(p['trace'])
            failed.append(f)
    res['failed'] = failed
    res['status'] = 'fail' if failed else 'ok'
    res['solver_s'] = round(sum(float(m.group(1)) for t in msgs for m in [re.search(r'Runtime decision procedure: ([\d.]+)s', t)] if m), 2)
    return res


# ------------------------------------------------------------------ replay
# The replay executable is the SAME harness source compiled natively (-DREPLAY) and linked against the real shim:
# a clang++ -O1 -g ASan+UBSan build of the real jsoncons templates.  Inputs are loaded by name from the counterexample.
_replay_built = {}
_replay_lock = threading.Lock()
SHIM_RP_FLAGS = ['-std=c++17', '-O1', '-g', '-fno-exceptions', '-fno-rtti', '-fno-access-control', '-fsanitize=address,undefined',
                 '-fno-sanitize-recover=all', '-fno-omit-frame-pointer', '-I' + INC, '-I' + ENGINE, '-DJSONCONS_VERIF', '-D_GLIBCXX_ASSERTIONS', '-DIRC_REPLAY', '-w']


def build_replay(kname, harness_file, defs, shim_defs=None):
    key = (kname, harness_file, json.dumps(defs or {}, sort_keys=True), json.dumps(shim_defs or {}, sort_keys=True))
    sdv = ('+' + ','.join('%s=%s' % kv for kv in sorted(shim_defs.items()))) if shim_defs else ''
    with _replay_lock:
        if key in _replay_built:
            return _replay_built[key]
        kd = os.path.join(KERNELS, kname)
        bd = os.path.join(BUILD, kname, 'plain' + sdv)
        if not os.path.exists(os.path.join(bd, 'protos', 'kernel.c')):
            build_kernel(kname, load_spec(kname), 'plain' + sdv)
        spec = load_spec(kname)
        shim_o = os.path.join(bd, 'shim_rp.o')
        if not os.path.exists(shim_o):
            r = sh(['clang++-14'] + SHIM_RP_FLAGS + list(getattr(spec, 'CLANG_EXTRA', [])) + ['-D%s=%s' % kv for kv in sorted((shim_defs or {}).items())] + ['-c', os.path.join(kd, 'shim.cpp'), '-o', shim_o], timeout=900)
            if r['rc'] != 0:
                raise Broken('replay shim build failed for %s:\n%s' % (kname, r['err'][-3000:]))
        h = hashlib.sha1(repr(key).encode()).hexdigest()[:10]
        exe = os.path.join(bd, 'replay_' + h)
        cc = ['clang-14', '-O0', '-g', '-w', '-DREPLAY', '-DIRC_NATIVE', '-fsanitize=address', '-I' + os.path.join(bd, 'protos'), '-I' + ENGINE, '-I' + kd]
        for k, v in (defs or {}).items():
            cc += ['-D%s=%s' % (k, v)]
        ho = os.path.join(bd, 'h_' + h + '.o')
        ro = os.path.join(bd, 'rt_' + h + '.o')
        for src, obj in ((os.path.join(kd, harness_file), ho), (os.path.join(ENGINE, 'vreplay_rt.c'), ro)):
            r = sh(cc + ['-c', src, '-o', obj], timeout=900)
            if r['rc'] != 0:
                raise Broken('replay build failed for %s:\n%s' % (kname, r['err'][-3000:]))
        r = sh(['clang++-14', '-fsanitize=address,undefined', ho, ro, shim_o, '-lm', '-o', exe], timeout=900)
        if r['rc'] != 0:
            raise Broken('replay link failed for %s:\n%s' % (kname, r['err'][-3000:]))
        _replay_built[key] = exe
        return exe


def enc_inputs(ins):
    args = []
    for k, v in sorted(ins.items()):
        if isinstance(v, list):
            flat = []

            def fl(x):
                for e in x:
                    if isinstance(e, list):
                        fl(e)
                    else:
                        flat.append(int(e) if e is not None else 0)
            fl(v)
            args.append('%s=[%s]' % (k, ','.join(str(x) for x in flat)))
        else:
            args.append('%s=%s' % (k, v))
    return args


def run_replay(kname, harness, ins, defs=None, harness_file='harness.c', shim_defs=None):
    exe = build_replay(kname, harness_file, defs, shim_defs)
    args = [exe, harness] + enc_inputs(ins)
    env = dict(os.environ, ASAN_OPTIONS='detect_leaks=0:abort_on_error=0:detect_stack_use_after_return=0', UBSAN_OPTIONS='print_stacktrace=1')
    r = sh(args, timeout=120, env=env)
    reproduced = r['rc'] not in (0, 2)
    return dict(reproduced=reproduced, rc=r['rc'], out=(r['out'][-1500:] + r['err'][-2500:]), cmd=' '.join(args))


def source_tree_id():
    """which tree the encoding was generated from: path, HEAD and whether the working tree differs from HEAD (checks always use the working tree)"""
    root = os.path.dirname(INC.rstrip('/'))
    try:
        head = sh(['git', '-C', root, 'rev-parse', 'HEAD'], timeout=30)['out'].strip()
        dirty = bool(sh(['git', '-C', root, 'status', '--porcelain', '--untracked-files=no'], timeout=60)['out'].strip())
    except Exception:
        head, dirty = 'unknown', None
    return dict(path=root, head=head, working_tree_differs_from_head=dirty)


# ------------------------------------------------------------------ property driver
def load_known():
    p = os.path.join(ROOT, 'known_findings.json')
    if os.path.exists(p):
        return json.load(open(p))
    return {'findings': [], 'fixed': []}


def check_property(pid, tier, seed, only_kernel=None, only_job=None, keep=False, verbose=True):
    global BUILD
    t0 = time.time()
    BUILD = os.path.join(BUILD_ROOT, '%s-%s%s%s' % (pid, tier, ('-' + only_kernel) if only_kernel else '', os.environ.get('VERIF_BUILD_TAG', '')))
    shutil.rmtree(BUILD, ignore_errors=True)
    os.makedirs(BUILD, exist_ok=True)
    _replay_built.clear()
    known = load_known()
    open_findings = [f for f in known.get('findings', []) if f['property'] == pid]
    jobs = []
    specs = {}
    for kn in all_kernels():
        if only_kernel and kn != only_kernel:
            continue
        spec = load_spec(kn)
        js = [dict(j, kernel=kn) for j in spec.jobs(tier) if pid in j['props']]
        if tier != 'quick':
            # jobs that exist only beyond the quick tier are DEEP exploration under a time/memory budget: no verdict within the budget is reported as
            # NOT-EXPLORED (never as a pass, never counted) and does not fail the run; jobs shared with the quick tier stay mandatory
            qids = set(j['id'] for j in spec.jobs('quick'))
            for j in js:
                j['deep'] = j['id'] not in qids
        if only_job:
            js = [j for j in js if j['id'] == only_job]
        if js:
            specs[kn] = spec
            jobs += js
    if not jobs:
        raise Broken('no jobs for %s' % pid)
    log = (lambda *a: print(*a, flush=True)) if verbose else (lambda *a: None)
    # build
    infos = {}
    selftests = {}
    need = {}
    def variant_of(j):
        v = 'safety' if j.get('safety') else 'plain'
        sd = j.get('shim_defs')
        return v + ('+' + ','.join('%s=%s' % kv for kv in sorted(sd.items())) if sd else '')
    for j in jobs:
        need.setdefault(j['kernel'], set()).add(variant_of(j))

    def bld(kn):
        out = {}
        for var in sorted(need[kn]):
            out[var] = build_kernel(kn, specs[kn], var)
        try:
            st = selftest(kn, specs[kn], out.get('plain') or (build_kernel(kn, specs[kn], 'plain') if os.path.exists(os.path.join(KERNELS, kn, 'selftest.cpp')) else next(iter(out.values()))), seed)
        except Broken as e:
            # a mismatch can be caused by undefined behaviour in the (changed) code under test, e.g. a read of uninitialised bytes: keep going -
            # a reproduced counterexample outranks it; without one the run is reported as BROKEN, never as success
            st = dict(ran=True, failed=str(e)[:1500])
        return kn, out, st
    with ThreadPoolExecutor(max_workers=8) as ex:
        for kn, out, st in ex.map(bld, sorted(need)):
            infos[kn] = out
            selftests[kn] = st
            log('[build] %s variants=%s functions=%d selftest=%s' % (kn, ','.join(out), len(next(iter(out.values()))['functions']), st))
    # known-finding exclusion: attach to jobs
    for j in jobs:
        j['exclude_findings'] = [f['id'] for f in open_findings if f.get('kernel') == j['kernel'] and j['id'] in f.get('jobs', [j['id']])]

    results = []
    selftest_failures = ['%s: %s' % (kn, st['failed']) for kn, st in selftests.items() if st.get('failed')]

    def runj(j):
        info = infos[j['kernel']][variant_of(j)]
        main = run_cbmc(j, info, witness=False)
        wit = None
        if j.get('witness', True):
            wit = run_cbmc(j, info, witness=True)
        return j, main, wit
    order = sorted(jobs, key=lambda j: -j.get('timeout', 300))
    with ThreadPoolExecutor(max_workers=int(os.environ.get('VERIF_JOBS', '16'))) as ex:
        futs = [ex.submit(runj, j) for j in order]
        for fu in as_completed(futs):
            j, main, wit = fu.result()
            results.append((j, main, wit))
            log('[job] %s/%s %s props=%s wall=%ss%s' % (j['kernel'], j['id'], main['status'], main.get('props'), main['wall'],
                                                       '' if wit is None else ' witness=%s(%ss)' % ('reached' if any(f['description'].startswith('WITNESS') for f in wit.get('failed', [])) else wit['status'], wit['wall'])))
    results.sort(key=lambda r: (r[0]['kernel'], r[0]['id']))
    # analyse
    violations = []
    broken = []
    undecided = []
    not_explored = []
    wit_native = []
    wit_native_seen = set()
    samples = []
    obligations = 0
    discharged = 0
    queries = 0
    solver_s = 0.0
    decided_jobs = 0
    for j, main, wit in results:
        queries += 1 + (1 if wit else 0)
        solver_s += main['wall'] + (wit['wall'] if wit else 0)
        jid = '%s/%s' % (j['kernel'], j['id'])
        if wit is not None:
            wf = [f for f in wit.get('failed', []) if f['description'].startswith('WITNESS')]
            if wit['status'] == 'undecided':
                (not_explored if j.get('deep') else undecided).append(dict(job=jid, what='witness twin', why=wit.get('why'), bound=j.get('bound')))
            elif not wf:
                # unreachable witness = vacuous harness; only trust that if the main run itself is clean
                broken.append('%s: vacuity witness NOT reached (%s %s)' % (jid, wit['status'], wit.get('why', '')))
            elif wf[0].get('inputs'):
                if len(samples) < 12:
                    samples.append(dict(job=jid, witness_input=wf[0]['inputs']))
                wkey = (j['kernel'], j['harness'], variant_of(j))
                if wkey not in wit_native_seen and len(wit_native) < 16 and not j.get('safety'):
                    # translation validation at one concrete point per (kernel, harness, variant): the solver's witness input is executed on the native ASan/UBSan build of the
                    # same harness against the real headers; the witness condition must be reached there too and no property assertion may fail on the way.  Informational:
                    # recorded in the evidence, printed when it diverges, never changes the exit code (harness stubs that are nondeterministic under CBMC can legitimately differ).
                    wit_native_seen.add(wkey)
                    try:
                        rp = run_replay(j['kernel'], j['harness'], wf[0]['inputs'], dict(j.get('defs', {}), WITNESS=1), j.get('harness_file', 'harness.c'), j.get('shim_defs'))
                        verdict = {3: 'agrees', 1: 'DIVERGED: a property assertion fails natively on an input the solver says satisfies it', 0: 'DIVERGED: witness condition not reached natively'}.get(rp['rc'], 'inconclusive rc=%s' % rp['rc'])
                    except Exception as e:
                        verdict = 'inconclusive: %s' % str(e)[:200]
                    wit_native.append(dict(job=jid, verdict=verdict))
                    if not verdict.startswith('agrees'):
                        log('WITNESS-NATIVE %s: %s' % (jid, verdict))
        if main['status'] == 'ok' and wit is not None and wit['status'] == 'undecided':
            pass   # non-vacuity of this job was not established: its assertions are not counted (the job is already listed as undecided / not explored)
        elif main['status'] == 'ok':
            obligations += main['props']
            discharged += main['props']
            decided_jobs += 1
        elif main['status'] == 'undecided':
            (not_explored if j.get('deep') else undecided).append(dict(job=jid, what='main', why=main.get('why'), bound=j.get('bound')))
        elif main['status'] == 'error':
            broken.append('%s: %s' % (jid, main.get('why')))
        else:
            obligations += main['props']
            discharged += main['props'] - len(main['failed'])
            decided_jobs += 1
            # replay each distinct failing input
            seen = set()
            for f in main['failed']:
                ins = f.get('inputs') or {}
                key = json.dumps(ins, sort_keys=True)
                if key in seen:
                    continue
                seen.add(key)
                if f['property'].endswith('.unwind.%s' % f['property'].split('.')[-1]) and '.unwind.' in f['property']:
                    broken.append('%s: unwinding assertion failed (%s) - bound too small for this tree, verdict not claimed' % (jid, f['description']))
                    continue
                rp = run_replay(j['kernel'], j['harness'], ins, j.get('defs'), j.get('harness_file', 'harness.c'), j.get('shim_defs'))
                rec = dict(property=pid, kernel=j['kernel'], job=j['id'], harness=j['harness'], harness_file=j.get('harness_file', 'harness.c'), defs=j.get('defs', {}), shim_defs=j.get('shim_defs'), inputs=ins,
                           failed_assertion=f['description'], cbmc_property=f['property'], replay=rp)
                if rp['reproduced']:
                    violations.append(rec)
                else:
                    broken.append('%s: ENCODING-SUSPECT counterexample for "%s" does not reproduce on the real build: inputs=%s' % (jid, f['description'], key[:600]))
    # known findings: re-confirm through replay
    kf_lines = []
    for f in open_findings:
        if only_kernel and f.get('kernel') != only_kernel:
            continue
        rp = run_replay(f['kernel'], f['harness'], f['witness'], f.get('defs'), f.get('harness_file', 'harness.c'))
        if rp['reproduced']:
            kf_lines.append('KNOWN-FINDING: property=%s %s' % (pid, f['what']))
        else:
            kf_lines.append('NOTE: listed finding %s no longer reproduces (fixed?) - its exclusion is still applied; remove it from known_findings.json' % f['id'])
    for l in kf_lines:
        print(l, flush=True)
    # write replays
    vio_lines = []
    for v in violations:
        h = hashlib.sha1(json.dumps(v['inputs'], sort_keys=True).encode() + v['harness'].encode()).hexdigest()[:12]
        d = os.path.join(os.environ.get('VERIF_REPLAY_DIR') or os.path.join(ROOT, 'replays'), pid)
        os.makedirs(d, exist_ok=True)
        path = os.path.join(d, h + '.json')
        json.dump(v, open(path, 'w'), indent=1)
        vio_lines.append('VIOLATION property=%s replay=%s' % (pid, path))
        log('  counterexample: kernel=%s harness=%s assertion="%s" inputs=%s' % (v['kernel'], v['harness'], v['failed_assertion'], json.dumps(v['inputs'])[:400]))
        log('  replay says: %s' % v['replay']['out'].strip()[-400:])
    functions = {}
    for kn, vs in infos.items():
        for var, inf in vs.items():
            functions['%s/%s' % (kn, var)] = inf['functions']
    ev = dict(
        property_id=pid, tier=tier, seed=seed, level='other',
        coverage=dict(
            explanation='Bounded symbolic checking of the real code: each kernel shim instantiates jsoncons templates from /repo/include, is lowered by clang++-14 to LLVM IR, translated to C by engine/irc.py and decided by CBMC 6.11 (SAT back end kissat unless stated) with --unwinding-assertions. A job passes only if every assertion (property assertions, CBMC pointer/bounds checks, irc traps, unwinding assertions) is UNSAT within the stated bound; each job has a reachability witness twin that must FAIL. Counterexamples are replayed on the real headers under ASan+UBSan before being reported.',
            obligations=obligations, discharged=discharged,
            checker_cmd='cbmc <kernel harness> --unwind N --unwinding-assertions --drop-unused-functions --no-malloc-may-fail --external-sat-solver kissat',
            trusted_base=['clang++-14 -O1 lowering to LLVM IR', 'engine/irc.py IR->C translation (differentially self-tested each run)', 'CBMC 6.11.0 C semantics', 'kissat/cadical', 'harness reference models and stubs listed per job'],
            evaluations=queries, distinct_nontrivial=decided_jobs,
            rule='one evaluation = one solver query (a job or its witness twin); a job is distinct+nontrivial when it is a distinct (kernel, harness, bound-class) obligation whose main query was decided and whose witness twin reached the guarded region',
            samples=samples[:12] or [dict(note='no witness inputs extracted')],
            jobs=[dict(job='%s/%s' % (j['kernel'], j['id']), desc=j.get('desc'), bound=j.get('bound'), unwind=j['unwind'], backend=j.get('backend', 'kissat'),
                       status=main['status'], assertions=main.get('props'), wall_s=main['wall'], witness=(None if wit is None else ('reached' if any(f['description'].startswith('WITNESS') for f in wit.get('failed', [])) else wit['status'])),
                       safety_mode=bool(j.get('safety')), excluded_known_findings=j.get('exclude_findings', []))
                  for j, main, wit in results],
            functions_encoded=functions,
            stubs={kn: getattr(specs[kn], 'STUB_NOTES', []) for kn in specs},
            selftests=selftests,
            witness_inputs_replayed_natively=wit_native,
            source_tree=source_tree_id(),
            not_decided=undecided,
            not_explored=not_explored,
            not_explored_rule='deep jobs (present only in the thorough tier) that gave no verdict within their time/memory budget: nothing is claimed for them, they are not counted in obligations/discharged, and they do not fail the run',
            solver_wall_s=round(solver_s, 1),
            known_findings=[l for l in kf_lines],
        ),
        assumptions=sorted(set(a for kn in specs for a in getattr(specs[kn], 'ASSUMPTIONS', []))),
        wall_s=round(time.time() - t0, 1),
        violations=len(violations),
    )
    evdir = os.environ.get('VERIF_EVIDENCE_DIR') or os.path.join(ROOT, 'evidence')   # seeded-mutation runs (tools/seedrun.py) write elsewhere
    os.makedirs(evdir, exist_ok=True)
    if not (only_kernel or only_job) or os.environ.get('VERIF_EVIDENCE_DIR'):
        json.dump(ev, open(os.path.join(evdir, pid + '.json'), 'w'), indent=1)
    if not keep:
        shutil.rmtree(BUILD, ignore_errors=True)
    for l in vio_lines:
        print(l, flush=True)
    log('[%s %s] jobs=%d decided=%d assertions=%d discharged=%d undecided=%d not_explored=%d broken=%d violations=%d wall=%.0fs'
        % (pid, tier, len(results), decided_jobs, obligations, discharged, len(undecided), len(not_explored), len(broken), len(violations), time.time() - t0))
    for u in not_explored:
        print('NOT-EXPLORED (deep job, no verdict within budget, nothing claimed): %s' % json.dumps(u), flush=True)
    if violations:
        return 1
    broken = selftest_failures + broken
    if broken:
        for b in broken:
            print('BROKEN: ' + b, flush=True)
        return 2
    if undecided:
        for u in undecided:
            print('UNDECIDED: %s' % json.dumps(u), flush=True)
        return 3
    return 0


def replay_file(path):
    global BUILD
    v = json.load(open(path))
    BUILD = os.path.join(BUILD_ROOT, 'replay-%d' % os.getpid())
    shutil.rmtree(BUILD, ignore_errors=True)
    os.makedirs(BUILD, exist_ok=True)
    rp = run_replay(v['kernel'], v['harness'], v['inputs'], v.get('defs'), v.get('harness_file', 'harness.c'), v.get('shim_defs'))
    print(rp['cmd'])
    print(rp['out'])
    shutil.rmtree(BUILD, ignore_errors=True)
    if rp['reproduced']:
        print('VIOLATION property=%s replay=%s' % (v['property'], path))
        return 1
    print('not reproduced')
    return 0
