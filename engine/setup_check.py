#!/usr/bin/env python3
"""setup: verify the offline tool chain the checks need; nothing is fetched or built ahead of time
(every check rebuilds its kernels from /repo's working tree)."""
import shutil, subprocess, sys, os
need = ['clang++-14', 'clang-14', 'gcc', 'g++', 'cbmc', 'kissat', 'objcopy']
missing = [t for t in need if not shutil.which(t)]
if missing:
    print('missing tools: ' + ' '.join(missing)); sys.exit(1)
v = subprocess.run(['cbmc', '--version'], capture_output=True, text=True).stdout.strip()
print('cbmc', v)
root = os.path.dirname(os.path.dirname(os.path.abspath(__file__)))
for d in ('build', 'evidence'):
    os.makedirs(os.path.join(root, d), exist_ok=True)
print('setup ok')
