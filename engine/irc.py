#!/usr/bin/env python3
"""irc: LLVM-14 textual IR (typed pointers, -O1, no exceptions) -> C for CBMC.  PROTOTYPE.
usage: irc.py in.ll out.c [--entry f1,f2] [--stub s1,s2]
"""
import re, sys

class Err(Exception): pass

# ---------------------------------------------------------------- tokenizer helpers
def split_top(s, sep=','):
    out=[]; depth=0; cur=''; inq=False
    i=0
    while i < len(s):
        ch=s[i]
        if inq:
            cur+=ch
            if ch=='"': inq=False
        elif ch=='"':
            inq=True; cur+=ch
        elif ch in '([{<':
            depth+=1; cur+=ch
        elif ch in ')]}>':
            depth-=1; cur+=ch
        elif ch==sep and depth==0:
            out.append(cur.strip()); cur=''
        else: cur+=ch
        i+=1
    if cur.strip(): out.append(cur.strip())
    return out

def mangle(n):
    return re.sub(r'[^A-Za-z0-9_]', lambda m: '_%02x'%ord(m.group(0)), n)

# ---------------------------------------------------------------- types
class T: pass
class IntT(T):
    def __init__(s,b): s.b=b
    def c(s):
        b=s.b
        if b==1: return 'u8'
        for w in (8,16,32,64,128):
            if b<=w: return 'u%d'%w
        raise Err('int width %d'%b)
    def sc(s): return 's'+s.c()[1:]
    def cw(s): return int(s.c()[1:])
    def key(s): return 'i%d'%s.b
class FT(T):
    def __init__(s,n): s.n=n
    def c(s): return {'double':'double','float':'float','x86_fp80':'long double','half':'_Float16'}[s.n]
    def key(s): return s.n
class VoidT(T):
    def c(s): return 'void'
    def key(s): return 'void'
class PtrT(T):
    def __init__(s,e): s.e=e
    def key(s): return s.e.key()+'*'
class ArrT(T):
    def __init__(s,n,e): s.n=n; s.e=e
    def key(s): return '[%d x %s]'%(s.n,s.e.key())
class StructT(T):
    def __init__(s,name,fields,packed=False,opaque=False): s.name=name; s.fields=fields; s.packed=packed; s.opaque=opaque
    def key(s): return s.name
class FnT(T):
    def __init__(s,ret,args,va): s.ret=ret; s.args=args; s.va=va
    def key(s): return '%s(%s%s)'%(s.ret.key(),','.join(a.key() for a in s.args),',...' if s.va else '')

class Mod:
    def __init__(s):
        s.named={}      # name -> StructT
        s.lits={}       # key -> StructT (literal structs)
        s.arrs={}       # key -> cname
        s.fnts={}       # key -> cname
        s.order=[]      # type emission order
        s.globals={}    # name -> (type, init, const)
        s.funcs={}      # name -> Func
        s.decls={}      # name -> FnT
        s.strs=0

    # -- parse a type at the start of string s; return (T, rest)
    def ptype(m, s):
        s=s.lstrip()
        t=None
        mm=re.match(r'i(\d+)',s)
        if mm: t=IntT(int(mm.group(1))); s=s[mm.end():]
        elif s.startswith('void'): t=VoidT(); s=s[4:]
        elif re.match(r'(double|float|x86_fp80|half)\b',s):
            mm=re.match(r'(double|float|x86_fp80|half)\b',s); t=FT(mm.group(1)); s=s[mm.end():]
        elif s.startswith('%'):
            mm=re.match(r'%("(?:[^"\\]|\\.)*"|[-A-Za-z0-9_.$]+)',s)
            nm=mm.group(1)
            if nm not in m.named: m.named[nm]=StructT('S_'+mangle(nm.strip('"')),None,opaque=True)
            t=m.named[nm]; s=s[mm.end():]
        elif s.startswith('['):
            j=m.match_close(s,0,'[',']'); inner=s[1:j]
            mm=re.match(r'\s*(\d+)\s+x\s+',inner)
            et,rest=m.ptype(inner[mm.end():])
            t=ArrT(int(mm.group(1)),et); s=s[j+1:]
        elif s.startswith('<{'):
            j=m.match_close(s,0,'<','>'); inner=s[2:j-1]
            t=m.litstruct(inner,True); s=s[j+1:]
        elif s.startswith('{'):
            j=m.match_close(s,0,'{','}'); inner=s[1:j]
            t=m.litstruct(inner,False); s=s[j+1:]
        elif s.startswith('<'):
            raise Err('vector type '+s[:40])
        elif s.startswith('opaque'): raise Err('opaque')
        elif s.startswith('metadata'): raise Err('metadata')
        elif s.startswith('...'): raise Err('vararg-type')
        else: raise Err('type? '+s[:60])
        while True:
            s2=s.lstrip()
            if s2.startswith('*'):
                t=PtrT(t); s=s2[1:]
            elif s2.startswith('(') :
                j=m.match_close(s2,0,'(',')'); inner=s2[1:j]
                args=[]; va=False
                for a in split_top(inner):
                    if a=='...': va=True
                    else:
                        at,_=m.ptype(a); args.append(at)
                t=FnT(t,args,va); s=s2[j+1:]
            else: break
        return t,s
    def match_close(m,s,i,o,c):
        d=0; inq=False
        for k in range(i,len(s)):
            ch=s[k]
            if inq:
                if ch=='"': inq=False
                continue
            if ch=='"': inq=True
            elif ch in '([{<': d+=1
            elif ch in ')]}>':
                d-=1
                if d==0: return k
        raise Err('unbalanced '+s[:80])
    def litstruct(m,inner,packed):
        fs=[]
        for f in split_top(inner):
            ft,_=m.ptype(f); fs.append(ft)
        key=('<{%s}>' if packed else '{%s}')%','.join(f.key() for f in fs)
        if key not in m.lits:
            st=StructT('L%d'%len(m.lits),fs,packed); m.lits[key]=st
        return m.lits[key]

    # -- C type naming
    def ct(m,t):
        if isinstance(t,(IntT,FT,VoidT)): return t.c()
        if isinstance(t,StructT): return 'struct '+t.name
        if isinstance(t,ArrT):
            k=t.key()
            if k not in m.arrs: m.arrs[k]=('A%d'%len(m.arrs),t)
            return 'struct '+m.arrs[k][0]
        if isinstance(t,PtrT):
            if isinstance(t.e,FnT): return m.fnptr(t.e)
            if isinstance(t.e,VoidT): return 'u8*'
            if isinstance(t.e,StructT) and t.e.opaque and t.e.fields is None: return 'struct %s*'%t.e.name
            return m.ct(t.e)+'*'
        if isinstance(t,FnT): raise Err('bare fn type')
        raise Err('ct '+repr(t))
    def fnptr(m,ft):
        k=ft.key()
        if k not in m.fnts: m.fnts[k]=('F%d'%len(m.fnts),ft)
        return m.fnts[k][0]

def sizeof_hint(t): return 0

# ---------------------------------------------------------------- module parse
class Func:
    def __init__(s,name,ret,params,lines): s.name=name; s.ret=ret; s.params=params; s.lines=lines

ATTR_WORDS=set('''noundef nonnull nocapture readonly writeonly readnone noalias zeroext signext returned immarg inreg nest nofree
 swiftself swifterror'''.split())
def strip_param_attrs(s):
    # remove attributes like align 8, dereferenceable(24), sret(%T), byval(%T)
    s=re.sub(r'\b(dereferenceable|dereferenceable_or_null|align|sret|byval|byref|inalloca|preallocated|elementtype)\s*\((?:[^()]|\([^()]*\))*\)','',s)
    s=re.sub(r'\balign\s+\d+','',s)
    toks=s.split()
    return ' '.join(t for t in toks if t not in ATTR_WORDS)

def parse_module(text):
    m=Mod()
    lines=text.split('\n')
    i=0
    # first pass: named types
    for ln in lines:
        mm=re.match(r'(%(?:"(?:[^"\\]|\\.)*"|[-A-Za-z0-9_.$]+)) = type (.*)$',ln)
        if mm:
            nm=mm.group(1)[1:]; body=mm.group(2).strip()
            if nm not in m.named: m.named[nm]=StructT('S_'+mangle(nm.strip('"')),None,opaque=True)
    for ln in lines:
        mm=re.match(r'(%(?:"(?:[^"\\]|\\.)*"|[-A-Za-z0-9_.$]+)) = type (.*)$',ln)
        if mm:
            nm=mm.group(1)[1:]; body=mm.group(2).strip()
            st=m.named[nm]
            if body=='opaque': continue
            packed=body.startswith('<{')
            inner=body[2:-2] if packed else body[1:-1]
            st.fields=[m.ptype(f)[0] for f in split_top(inner)]
            st.packed=packed; st.opaque=False
            m.order.append(st)
    while i<len(lines):
        ln=lines[i]
        if ln.startswith('@'):
            parse_global(m,ln)
        elif ln.startswith('declare '):
            parse_decl(m,ln)
        elif ln.startswith('define '):
            j=i+1
            while lines[j]!='}': j+=1
            parse_func(m,ln,lines[i+1:j])
            i=j
        i+=1
    return m

LINK=r'(?:private|internal|available_externally|linkonce|weak|common|appending|extern_weak|linkonce_odr|weak_odr|external)'
def parse_global(m,ln):
    mm=re.match(r'(@(?:"(?:[^"\\]|\\.)*"|[-A-Za-z0-9_.$]+)) = (.*)$',ln)
    name=mm.group(1)[1:].strip('"'); rest=mm.group(2)
    if rest.startswith('comdat') : return
    external = False
    toks_drop=['dso_local','local_unnamed_addr','unnamed_addr','hidden','protected','default','thread_local','externally_initialized']
    while True:
        r2=rest.lstrip()
        mm=re.match(LINK+r'\b',r2)
        if mm:
            if mm.group(0) in('external','extern_weak'): external=True
            rest=r2[mm.end():]; continue
        hit=False
        for t in toks_drop:
            if r2.startswith(t+' '): rest=r2[len(t):]; hit=True; break
        if hit: continue
        break
    rest=rest.lstrip()
    const = rest.startswith('constant ')
    if rest.startswith('alias') or rest.startswith('ifunc'): raise Err('alias '+name)
    rest=re.sub(r'^(constant|global)\s+','',rest)
    t,rest=m.ptype(rest)
    rest=rest.strip()
    # strip trailing ", comdat, align 16" ", section ..." etc.
    parts=split_top(rest)
    init=parts[0] if parts and not external else None
    if init is not None and (init.startswith('align') or init.startswith('comdat') or init.startswith('section')): init=None
    m.globals[name]=(t,init,const)

def parse_sig(m,s):
    # s: "RET @name(params) attrs"
    s=re.sub(r'^(?:'+LINK+r'\s+|dso_local\s+|hidden\s+|protected\s+|noundef\s+|nonnull\s+|noalias\s+|zeroext\s+|signext\s+|align\s+\d+\s+|dereferenceable(_or_null)?\(\d+\)\s+|fastcc\s+|ccc\s+)*','',s)
    s=strip_param_attrs_prefix(s)
    rt,rest=m.ptype(s)
    mm=re.match(r'\s*@("(?:[^"\\]|\\.)*"|[-A-Za-z0-9_.$]+)\s*\(',rest)
    name=mm.group(1).strip('"')
    j=m.match_close(rest,mm.end()-1,'(',')')
    inner=rest[mm.end():j]
    params=[]; va=False
    for p in split_top(inner):
        if p=='...': va=True; continue
        p2=strip_param_attrs(p)
        pt,r=m.ptype(p2)
        pn=r.strip()
        params.append((pt,pn))
    return name,rt,params,va
def strip_param_attrs_prefix(s):
    while True:
        s2=re.sub(r'^(noundef|nonnull|noalias|zeroext|signext)\s+','',s)
        s2=re.sub(r'^(align\s+\d+|dereferenceable(_or_null)?\(\d+\))\s+','',s2)
        if s2==s: return s
        s=s2

def parse_decl(m,ln):
    if '(metadata' in ln or 'metadata)' in ln: return
    name,rt,params,va=parse_sig(m,ln[len('declare '):])
    m.decls[name]=FnT(rt,[p[0] for p in params],va)
def parse_func(m,ln,body):
    hdr=ln[len('define '):]
    name,rt,params,va=parse_sig(m,hdr)
    m.funcs[name]=Func(name,rt,params,body)
    m.funcs[name].va=va

# ---------------------------------------------------------------- function translation
class FX:
    def __init__(s,m,f):
        s.m=m; s.f=f; s.types={}; s.out=[]; s.decl=[]; s.bsrc={}; s.localmem=[]; s.entry=None; s.p2isrc={}; s.chain={}
    def vn(s,v):  # local name
        return 'v_'+mangle(v[1:].strip('"'))
    def gname(s,g):
        return cname(g[1:].strip('"'))

RENAME={'__assert_fail':'irc_c_assert_fail'}   # CBMC intercepts __assert_fail and insists on string literals
def cname(n):
    if n in RENAME: return RENAME[n]
    if re.match(r'^[A-Za-z_][A-Za-z0-9_]*$',n): return n
    return 'g_'+mangle(n)

def mask(t,e):
    if isinstance(t,IntT):
        w=t.cw()
        if t.b==w: return '(%s)(%s)'%(t.c(),e)
        return '(%s)((%s)&%s)'%(t.c(),e,hexmask(t.b))
    return e
def hexmask(b):
    v=(1<<b)-1
    if b>64: return '((((u128)0x%xULL)<<64)|0x%xULL)'%(v>>64,v&((1<<64)-1))
    return '0x%xULL'%v
def sx(t,e):
    """signed interpretation of value e of int type t -> signed C expr of container width"""
    w=t.cw()
    if t.b==w: return '(%s)(%s)'%(t.sc(),e)
    sh=w-t.b
    return '((%s)((%s)((%s)<<%d))>>%d)'%(t.sc(),t.c(),e,sh,sh)

class Trans:
    def __init__(s,m): s.m=m; s.strtab=[]; s.need=set()
    # ---- operand (value) parsing given known type
    def val(s,fx,t,tok):
        tok=tok.strip()
        m=s.m
        if tok.startswith('%'):
            return fx.vn(tok)
        if tok.startswith('@'):
            nm=tok[1:].strip('"'); s.need.add(nm)
            if nm in m.funcs or nm in m.decls:
                return '((%s)&%s)'%(m.ct(t),cname(nm))
            return '(&%s)'%cname(nm)
        if tok in('undef','poison'):
            return s.zero(t)
        if tok=='null': return '((%s)0)'%m.ct(t)
        if tok=='true': return '1'
        if tok=='false': return '0'
        if tok=='zeroinitializer': return s.zero(t)
        if isinstance(t,IntT) and re.match(r'^-?\d+$',tok):
            v=int(tok)&((1<<t.b)-1)
            if t.b>64: return '((((u128)0x%xULL)<<64)|0x%xULL)'%(v>>64,v&((1<<64)-1))
            return '((%s)0x%xULL)'%(t.c(),v)
        if isinstance(t,FT):
            if tok.startswith('0x'):
                if t.n=='double': return 'irc_bits2d(0x%sULL)'%tok[2:]
                if t.n=='float': return '((float)irc_bits2d(0x%sULL))'%tok[2:]
                raise Err('fp const '+tok)
            return '((%s)%s)'%(t.c(),tok)
        # constant expressions
        mm=re.match(r'(getelementptr|bitcast|ptrtoint|inttoptr|trunc|zext|sext|add|sub|mul|and|or|xor|shl|lshr|ashr|select|icmp|addrspacecast)\b',tok)
        if mm: return s.constexpr(fx,t,tok)
        if isinstance(t,StructT) and t.fields is not None and tok.startswith('{') and tok.endswith('}'):
            # literal struct constant operand: { T0 v0, T1 v1, ... } -> C compound literal, field by field
            parts=split_top(tok[1:-1].strip()); vals=[]
            if len(parts)!=len(t.fields): raise Err('struct const arity %s : %s'%(tok,t.key()))
            for pt_ in parts:
                ft_,r_=m.ptype(pt_); vals.append(s.val(fx,ft_,r_))
            return '((%s){%s})'%(m.ct(t),', '.join(vals))
        raise Err('val %s : %s'%(tok,t.key()))
    def zero(s,t):
        m=s.m
        if isinstance(t,(IntT,FT)): return '((%s)0)'%t.c()
        if isinstance(t,PtrT): return '((%s)0)'%m.ct(t)
        return '((%s){0})'%m.ct(t)
    def constexpr(s,fx,t,tok):
        m=s.m
        mm=re.match(r'(\w+)\s*(inbounds\s*)?(nuw\s*|nsw\s*|exact\s*)*\(',tok)
        op=mm.group(1)
        j=m.match_close(tok,mm.end()-1,'(',')')
        inner=tok[mm.end():j]
        if op in('bitcast','ptrtoint','inttoptr','trunc','zext','sext','addrspacecast'):
            k=inner.rfind(' to ')
            src=inner[:k];
            st,r=m.ptype(src); dt,_=m.ptype(inner[k+4:])
            v=s.val(fx,st,r)
            return s.cast(op,st,v,dt)
        if op=='getelementptr':
            parts=split_top(inner)
            bt,_=m.ptype(parts[0])
            pt,r=m.ptype(parts[1]); base=s.val(fx,pt,r)
            idx=[]
            for p in parts[2:]:
                p=re.sub(r'^inrange\s+','',p)
                it,r=m.ptype(p); idx.append((it,s.val(fx,it,r),r.strip()))
            e,rt=s.gep(bt,base,idx)
            return e
        if op in('add','sub','mul','and','or','xor','shl','lshr','ashr'):
            parts=split_top(inner)
            at,r=m.ptype(parts[0]); a=s.val(fx,at,r)
            bt,r=m.ptype(parts[1]); b=s.val(fx,bt,r)
            return s.binop(op,at,a,b)
        raise Err('constexpr '+tok[:80])
    def cast(s,op,st,v,dt):
        m=s.m
        if op in('bitcast','addrspacecast'):
            if isinstance(st,PtrT) and isinstance(dt,PtrT): return '((%s)%s)'%(m.ct(dt),v)
            if isinstance(st,IntT) and isinstance(dt,FT):
                return {'double':'irc_bits2d(%s)','float':'irc_bits2f(%s)'}[dt.n]%v
            if isinstance(st,FT) and isinstance(dt,IntT):
                return {'double':'irc_d2bits(%s)','float':'irc_f2bits(%s)'}[st.n]%v
            raise Err('bitcast %s->%s'%(st.key(),dt.key()))
        if op=='ptrtoint': return mask(dt,'irc_p2i((u8*)(%s))'%v)
        if op=='inttoptr': return '((%s)(u64)(%s))'%(m.ct(dt),v)
        if op=='trunc': return mask(dt,v)
        if op=='zext': return '((%s)(%s))'%(dt.c(),v)
        if op=='sext': return mask(dt,'(%s)%s'%(dt.sc(),sx(st,v)))
        if op=='fptoui': return mask(dt,'(%s)(%s)'%(dt.c(),v))
        if op=='fptosi': return mask(dt,'(%s)(%s)'%(dt.sc(),v))
        if op=='uitofp': return '((%s)(%s))'%(dt.c(),v)
        if op=='sitofp': return '((%s)%s)'%(dt.c(),sx(st,v))
        if op in('fpext','fptrunc'): return '((%s)(%s))'%(dt.c(),v)
        raise Err('cast '+op)
    def binop(s,op,t,a,b):
        if isinstance(t,FT):
            o={'fadd':'+','fsub':'-','fmul':'*','fdiv':'/'}.get(op)
            if o: return '((%s)(%s %s %s))'%(t.c(),a,o,b)
            if op=='frem': return 'fmod(%s,%s)'%(a,b)
            raise Err('fbinop '+op)
        c=t.c(); w=t.cw()
        big = '(u128)' if w==128 else ('(u64)' if w<64 else '')
        if op in('add','sub','mul','and','or','xor'):
            o={'add':'+','sub':'-','mul':'*','and':'&','or':'|','xor':'^'}[op]
            # compute in u64 (or u128) to avoid int promotion UB
            wide='u128' if w==128 else 'u64'
            return mask(t,'((%s)%s %s (%s)%s)'%(wide,a,o,wide,b))
        if op=='shl':
            wide='u128' if w==128 else 'u64'
            return mask(t,'(((%s)%s) << ((%s)&%d))'%(wide,a,b,(128 if w==128 else 64)-1))
        if op=='lshr':
            return mask(t,'((%s)%s >> ((%s)&%d))'%(c,a,b,w-1))
        if op=='ashr':
            return mask(t,'(%s >> ((%s)&%d))'%(sx(t,a),b,w-1))
        if op=='udiv': return mask(t,'(%s / %s)'%(a,b))
        if op=='urem': return mask(t,'(%s %% %s)'%(a,b))
        if op=='sdiv': return mask(t,'irc_sdiv%d(%s,%s)'%(w,sx(t,a),sx(t,b)))
        if op=='srem': return mask(t,'irc_srem%d(%s,%s)'%(w,sx(t,a),sx(t,b)))
        raise Err('binop '+op)
    def gep(s,bt,base,idx):
        """base: C expr of type bt*; idx list of (type, cexpr, rawtok). returns (expr, resulttype)"""
        m=s.m
        it,iv,raw=idx[0]
        cur=bt
        if isinstance(bt,StructT) and bt.opaque and bt.fields is None:
            raise Err('gep opaque')
        if isinstance(bt,VoidT): raise Err('gep void')
        e='(%s + %s)'%(base, s.sidx(it,iv)) if raw!='0' else base
        # e has type cur*
        for (it,iv,raw) in idx[1:]:
            if isinstance(cur,StructT):
                k=int(raw); e='(&(%s)->f%d)'%(e,k); cur=cur.fields[k]
            elif isinstance(cur,ArrT):
                m.ct(cur)
                e='(&(%s)->a[%s])'%(e,s.sidx(it,iv)); cur=cur.e
            else: raise Err('gep into '+cur.key())
        return e,PtrT(cur)
    def sidx(s,it,iv):
        return '(s64)%s'%sx(it,iv) if it.b<64 else '(s64)(%s)'%iv

    # ---- function body
    def func(s,f):
        m=s.m
        fx=FX(m,f)
        # collect blocks
        blocks=[]; cur=('entry',[])
        first=True
        for ln in f.lines:
            if not ln.strip() or ln.lstrip().startswith(';'): continue
            mm=re.match(r'^("(?:[^"\\]|\\.)*"|[-A-Za-z0-9_.$]+):',ln)
            if mm:
                blocks.append(cur); cur=(mm.group(1),[]); continue
            if cur[1] and cur[1][-1].startswith('switch ') and not cur[1][-1].rstrip().endswith(']'):
                cur[1][-1]+=' '+ln.strip()
            else:
                cur[1].append(ln.strip())
        blocks.append(cur)
        # entry block label: llvm numbers it implicitly: = number of params (unnamed) ; find from preds comments is hard, so compute
        nparams=len(f.params)
        entry_label=None
        # implicit entry label is next unnamed number
        cnt=0
        for (pt,pn) in f.params:
            if re.match(r'^%\d+$',pn): cnt=max(cnt,int(pn[1:])+1)
            elif pn=='' : cnt+=1
        blocks[0]=(str(cnt),blocks[0][1])
        # pass 1: types of all SSA values
        vt={}
        for (pt,pn) in f.params:
            if pn: vt[pn]=pt
        # unnamed params (declared without names) get %0.. in order
        k=0; params=[]
        for (pt,pn) in f.params:
            if not pn:
                pn='%%%d'%k
            if re.match(r'^%\d+$',pn): k=int(pn[1:])+1
            vt[pn]=pt; params.append((pt,pn))
        insts=[]
        for (lab,lines) in blocks:
            bl=[]
            for ln in lines:
                ln=re.sub(r',\s*![a-zA-Z_.0-9]+ ![0-9]+','',ln)   # metadata attachments
                ln=re.sub(r',\s*!srcloc !\d+','',ln)
                mm=re.match(r'^(%(?:"(?:[^"\\]|\\.)*"|[-A-Za-z0-9_.$]+)) = (.*)$',ln)
                if mm: dst=mm.group(1); rhs=mm.group(2)
                else: dst=None; rhs=ln
                bl.append((dst,rhs))
            insts.append((lab,bl))
        body=[]
        s.cur_fx=fx
        phis={}  # label -> list of (dst, type, [(val,pred)])
        for (lab,bl) in insts:
            for (dst,rhs) in bl:
                if rhs.startswith('phi '):
                    t,r=m.ptype(rhs[4:])
                    inc=[]
                    for p in split_top(r):
                        mm=re.match(r'\[\s*(.*),\s*%("(?:[^"\\]|\\.)*"|[-A-Za-z0-9_.$]+)\s*\]$',p)
                        inc.append((mm.group(1).strip(),mm.group(2)))
                    phis.setdefault(lab,[]).append((dst,t,inc)); vt[dst]=t
        # translate
        code=[]
        fx.entry=insts[0][0] if insts else None
        for (lab,bl) in insts:
            code.append('L_%s:;'%mangle(lab))
            for (dst,rhs) in bl:
                if rhs.startswith('phi '): continue
                r=s.inst(fx,vt,dst,rhs,lab,phis)
                code.extend(r)
        # declarations
        decls=[]
        pnames=set(pn for _,pn in params)
        for v,t in vt.items():
            if v in pnames: continue
            decls.append('  %s %s;'%(m.ct(t),fx.vn(v)))
        for (lab,pl) in phis.items():
            for (dst,t,inc) in pl:
                decls.append('  %s %s_phi;'%(m.ct(t),fx.vn(dst)))
        decls.extend(fx.localmem)
        sig=s.sig(f.name,f.ret,[p[0] for p in params],[fx.vn(p[1]) for p in params],getattr(f,'va',False))
        return sig+'\n{\n'+'\n'.join(decls)+'\n'+'\n'.join('  '+c for c in code)+'\n}\n'
    def sig(s,name,ret,ptypes,pnames=None,va=False):
        m=s.m
        ps=[]
        for i,pt in enumerate(ptypes):
            ps.append(m.ct(pt)+(' '+pnames[i] if pnames else ''))
        if va: ps.append('...')
        if not ps: ps=['void']
        return '%s %s(%s)'%(m.ct(ret),cname(name),', '.join(ps))
    def jump(s,fx,vt,frm,to,phis):
        out=[]
        pl=phis.get(to,[])
        tmp=[]
        for (dst,t,inc) in pl:
            for (v,pred) in inc:
                if pred==frm:
                    tmp.append((dst,t,v)); break
            else: raise Err('phi pred missing %s<-%s'%(to,frm))
        for (dst,t,v) in tmp:
            out.append('%s_phi = %s;'%(fx.vn(dst),s.val(fx,t,v)))
        for (dst,t,v) in tmp:
            out.append('%s = %s_phi;'%(fx.vn(dst),fx.vn(dst)))
        out.append('goto L_%s;'%mangle(to))
        return '{ '+' '.join(out)+' }'
    def inst(s,fx,vt,dst,rhs,lab,phis):
        m=s.m
        def setv(t,e):
            vt[dst]=t
            return ['%s = %s;'%(fx.vn(dst),e)]
        op=rhs.split()[0]
        rest=rhs[len(op):].strip()
        if op in('add','sub','mul','udiv','sdiv','urem','srem','and','or','xor','shl','lshr','ashr','fadd','fsub','fmul','fdiv','frem'):
            rest=re.sub(r'^((nuw|nsw|exact|fast|nnan|ninf|nsz|arcp|contract|afn|reassoc)\s+)*','',rest)
            t,r=m.ptype(rest); a,b=split_top(r)
            A_=s.val(fx,t,a); B_=s.val(fx,t,b)
            if op=='sub' and A_ in fx.p2isrc and B_ in fx.p2isrc:
                # pointer difference: fold to an offset difference when both point into the same object (lets CBMC constant-propagate lengths)
                return setv(t,'irc_pdiff((u8*)(%s),(u8*)(%s))'%(fx.p2isrc[A_],fx.p2isrc[B_]))
            return setv(t,s.binop(op,t,A_,B_))
        if op=='fneg':
            rest=re.sub(r'^((fast|nnan|ninf|nsz|arcp|contract|afn|reassoc)\s+)*','',rest)
            t,r=m.ptype(rest); return setv(t,'(-(%s))'%s.val(fx,t,r))
        if op=='icmp':
            pred,rest2=rest.split(None,1)
            t,r=m.ptype(rest2); a,b=split_top(r)
            A=s.val(fx,t,a); B=s.val(fx,t,b)
            if isinstance(t,PtrT):
                if pred in('eq','ne'): e='((u8*)%s %s (u8*)%s)'%(A,{'eq':'==','ne':'!='}[pred],B)
                else:
                    k={'ult':0,'slt':0,'ule':1,'sle':1,'ugt':2,'sgt':2,'uge':3,'sge':3}[pred]
                    e=['irc_plt((u8*)%s,(u8*)%s)','(!irc_plt((u8*)%s,(u8*)%s))','irc_plt((u8*)%s,(u8*)%s)','(!irc_plt((u8*)%s,(u8*)%s))'][k]%((A,B),(B,A),(B,A),(A,B))[k]
            else:
                if pred in('eq','ne','ult','ule','ugt','uge'):
                    o={'eq':'==','ne':'!=','ult':'<','ule':'<=','ugt':'>','uge':'>='}[pred]
                    e='(%s %s %s)'%(A,o,B)
                else:
                    o={'slt':'<','sle':'<=','sgt':'>','sge':'>='}[pred]
                    e='(%s %s %s)'%(sx(t,A),o,sx(t,B))
            return setv(IntT(1),'(u8)%s'%e)
        if op=='fcmp':
            rest=re.sub(r'^((fast|nnan|ninf|nsz|arcp|contract|afn|reassoc)\s+)*','',rest)
            pred,rest2=rest.split(None,1)
            t,r=m.ptype(rest2); a,b=split_top(r)
            A=s.val(fx,t,a); B=s.val(fx,t,b)
            un='(irc_isnan(%s)||irc_isnan(%s))'%(A,B)
            tbl={'oeq':'==','ogt':'>','oge':'>=','olt':'<','ole':'<=','one':'!='}
            if pred in tbl:
                e='(!%s && (%s %s %s))'%(un,A,tbl[pred],B)
            elif pred=='ord': e='(!%s)'%un
            elif pred=='uno': e=un
            elif pred in('ueq','ugt','uge','ult','ule','une'):
                e='(%s || (%s %s %s))'%(un,A,tbl['o'+pred[1:]],B)
            elif pred=='true': e='1'
            elif pred=='false': e='0'
            else: raise Err('fcmp '+pred)
            return setv(IntT(1),'(u8)%s'%e)
        if op in('trunc','zext','sext','bitcast','ptrtoint','inttoptr','fptoui','fptosi','uitofp','sitofp','fpext','fptrunc','addrspacecast'):
            k=rest.rfind(' to ')
            st,r=m.ptype(rest[:k]); dt,_=m.ptype(rest[k+4:])
            sv_=s.val(fx,st,r)
            if op=='ptrtoint' and dst is not None and isinstance(dt,IntT) and dt.b==64: fx.p2isrc[fx.vn(dst)]=sv_
            if op=='bitcast' and isinstance(st,PtrT) and isinstance(dt,PtrT) and dst is not None and not isinstance(st.e,(FnT,VoidT)) and not (isinstance(st.e,StructT) and st.e.fields is None):
                fx.bsrc[fx.vn(dst)]=(st.e,sv_)
                fx.chain[fx.vn(dst)]=[(st.e,sv_)]+fx.chain.get(sv_,[])
            return setv(dt,s.cast(op,st,sv_,dt))
        if op=='select':
            rest=re.sub(r'^((fast|nnan|ninf|nsz|arcp|contract|afn|reassoc)\s+)*','',rest)
            parts=split_top(rest)
            ct_,r=m.ptype(parts[0]); c=s.val(fx,ct_,r)
            t,r=m.ptype(parts[1]); a=s.val(fx,t,r)
            t2,r=m.ptype(parts[2]); b=s.val(fx,t2,r)
            return setv(t,'(%s ? %s : %s)'%(c,a,b))
        if op=='freeze':
            t,r=m.ptype(rest); return setv(t,s.val(fx,t,r))
        if op=='alloca':
            parts=split_top(rest)
            t,_=m.ptype(parts[0])
            n=None
            for p in parts[1:]:
                if not p.startswith('align'):
                    it,r=m.ptype(p); n=s.val(fx,it,r)
            vt[dst]=PtrT(t)
            nm=fx.vn(dst)+'_mem'
            if n is None:
                if lab==fx.entry:
                    # static alloca: a typed local (one per activation) keeps CBMC field-sensitive; content is nondeterministic like a fresh object
                    fx.localmem.append('  %s %s;'%(m.ct(t),nm))
                    return ['%s = &%s;'%(fx.vn(dst),nm)]
                return ['%s = (%s*)irc_alloca(sizeof(%s));'%(fx.vn(dst),m.ct(t),m.ct(t))]
            return ['%s = (%s*)irc_alloca(sizeof(%s)*(%s));'%(fx.vn(dst),m.ct(t),m.ct(t),n)]
        if op=='load':
            rest=re.sub(r'^((volatile|atomic)\s+)+','',rest)
            rest=re.sub(r'\s+(syncscope\("[^"]*"\)\s+)?(unordered|monotonic|acquire|release|acq_rel|seq_cst)\b','',rest)
            parts=split_top(rest)
            t,_=m.ptype(parts[0]); pt,r=m.ptype(parts[1])
            return setv(t,'*(%s)'%s.val(fx,pt,r))
        if op=='store':
            rest=re.sub(r'^((volatile|atomic)\s+)+','',rest)
            rest=re.sub(r'\s+(syncscope\("[^"]*"\)\s+)?(unordered|monotonic|acquire|release|acq_rel|seq_cst)\b','',rest)
            parts=split_top(rest)
            t,r=m.ptype(parts[0]); v=s.val(fx,t,r)
            pt,r=m.ptype(parts[1]); p=s.val(fx,pt,r)
            return ['*(%s) = %s;'%(p,v)]
        if op=='atomicrmw':
            # sequential semantics (kernels are single-threaded; concurrency is C20, n/a)
            rest=re.sub(r'^volatile\s+','',rest)
            aop,rest2=rest.split(None,1)
            parts=split_top(rest2)
            pt,r=m.ptype(parts[0]); ptr=s.val(fx,pt,r)
            t,r2=m.ptype(parts[1]); r2=r2.strip().split()[0]; v=s.val(fx,t,r2)
            cop={'add':'+','sub':'-','and':'&','or':'|','xor':'^'}
            out=[]
            if dst is not None:
                vt[dst]=t; out.append('%s = *(%s);'%(fx.vn(dst),ptr))
            if aop=='xchg': out.append('*(%s) = %s;'%(ptr,v))
            elif aop in cop: out.append('*(%s) = %s;'%(ptr,mask(t,'(u64)*(%s) %s (u64)%s'%(ptr,cop[aop],v))))
            else: raise Err('atomicrmw '+aop)
            return out
        if op=='fence': return []
        if op=='getelementptr':
            rest=re.sub(r'^inbounds\s+','',rest)
            parts=split_top(rest)
            bt,_=m.ptype(parts[0]); pt,r=m.ptype(parts[1]); base=s.val(fx,pt,r)
            idx=[]
            for p in parts[2:]:
                it,r=m.ptype(p); idx.append((it,s.val(fx,it,r),r.strip()))
            e,rt=s.gep(bt,base,idx)
            if dst is not None and all(ix[2] in ('0','zeroinitializer') for ix in idx) and not isinstance(bt,(FnT,VoidT)) and not (isinstance(bt,StructT) and bt.fields is None):
                # pointer to the first member == pointer to the enclosing object: remember the enclosing typed objects (for typed memset/memcpy)
                fx.chain[fx.vn(dst)]=[(bt,base)]+fx.chain.get(base,[])
            return setv(rt,e)
        if op=='extractvalue':
            parts=split_top(rest)
            t,r=m.ptype(parts[0]); v=s.val(fx,t,r); cur=t; e=v
            for k in parts[1:]:
                k=int(k)
                if isinstance(cur,StructT): e='%s.f%d'%(e,k); cur=cur.fields[k]
                else: e='%s.a[%d]'%(e,k); cur=cur.e
            return setv(cur,e)
        if op=='insertvalue':
            parts=split_top(rest)
            t,r=m.ptype(parts[0]); v=s.val(fx,t,r)
            et,r=m.ptype(parts[1]); ev=s.val(fx,et,r)
            vt[dst]=t; cur=t; path=''
            for k in parts[2:]:
                k=int(k)
                if isinstance(cur,StructT): path+='.f%d'%k; cur=cur.fields[k]
                else: path+='.a[%d]'%k; cur=cur.e
            return ['%s = %s; %s%s = %s;'%(fx.vn(dst),v,fx.vn(dst),path,ev)]
        if op=='br':
            if rest.startswith('label'):
                to=rest.split('%',1)[1].strip()
                return [s.jump(fx,vt,lab,to,phis)]
            parts=split_top(rest)
            c=s.val(fx,IntT(1),parts[0].split(None,1)[1])
            a=parts[1].split('%',1)[1].strip(); b=parts[2].split('%',1)[1].strip()
            return ['if (%s) %s else %s'%(c,s.jump(fx,vt,lab,a,phis),s.jump(fx,vt,lab,b,phis))]
        if op=='switch':
            mm=re.match(r'(.*?),\s*label %(\S+)\s*\[(.*)\]\s*$',rest,re.S)
            t,r=m.ptype(mm.group(1)); v=s.val(fx,t,r)
            out=[]
            cases=re.findall(r'(i\d+) (-?\d+), label %("(?:[^"\\]|\\.)*"|[-A-Za-z0-9_.$]+)',mm.group(3))
            for (ty,cv,to) in cases:
                out.append('if (%s == %s) %s'%(v,s.val(fx,t,cv),s.jump(fx,vt,lab,to,phis)))
            out.append(s.jump(fx,vt,lab,mm.group(2),phis))
            return out
        if op=='ret':
            if rest=='void': return ['return;']
            t,r=m.ptype(rest); return ['return %s;'%s.val(fx,t,r)]
        if op=='unreachable': return ['irc_unreachable();']
        if op in('call','tail','musttail','notail'):
            return s.call(fx,vt,dst,rhs)
        if op=='fence': return []
        raise Err('inst '+rhs[:100])
    def call(s,fx,vt,dst,rhs):
        m=s.m
        if 'llvm.experimental.noalias.scope.decl' in rhs or 'llvm.dbg.' in rhs: return []
        r=re.sub(r'^(tail |musttail |notail )?call\s+','',rhs)
        r=re.sub(r'^((fast|nnan|ninf|nsz|arcp|contract|afn|reassoc|fastcc|ccc)\s+)*','',r)
        r=strip_param_attrs_prefix(r)
        rt,r=m.ptype(r)
        r=r.strip()
        # optional full function type then callee
        if isinstance(rt,FnT):
            rt=rt.ret
        if isinstance(rt,PtrT) and isinstance(rt.e,FnT) and not r.startswith('('):
            rt=rt.e.ret
        # callee
        if r.startswith('@'):
            mm=re.match(r'@("(?:[^"\\]|\\.)*"|[-A-Za-z0-9_.$]+)\s*\(',r)
            callee=mm.group(1).strip('"'); k=mm.end()-1; direct=True
        elif r.startswith('%'):
            mm=re.match(r'(%(?:"(?:[^"\\]|\\.)*"|[-A-Za-z0-9_.$]+))\s*\(',r)
            callee=mm.group(1); k=mm.end()-1; direct=False
        elif r.startswith('bitcast'):
            raise Err('call via bitcast constexpr')
        else: raise Err('callee? '+r[:60])
        j=m.match_close(r,k,'(',')')
        args=[]
        for a in split_top(r[k+1:j]):
            a2=strip_param_attrs(a)
            if a2.startswith('metadata'): args.append((None,None)); continue
            at,ar=m.ptype(a2); args.append((at,s.val(fx,at,ar)))
        if direct and callee.startswith('llvm.'):
            return s.intrinsic(fx,vt,dst,callee,rt,args)
        if direct and callee in LIBC_MAP and callee not in m.funcs:
            e=LIBC_MAP[callee]%tuple(a[1] for a in args)
            if isinstance(rt,VoidT) or dst is None: return [e+';']
            vt[dst]=rt
            return ['%s = (%s)(%s);'%(fx.vn(dst),m.ct(rt),e)]
        if direct:
            s.need.add(callee)
            fn=cname(callee)
            # cast args to declared param types when pointer types differ is not needed (typed IR)
            e='%s(%s)'%(fn,', '.join(a[1] for a in args))
        else:
            ft=vt[callee]
            e='(%s)(%s)'%(fx.vn(callee),', '.join(a[1] for a in args))
        if isinstance(rt,VoidT) or dst is None:
            if dst is not None: raise Err('void call with dst')
            return [e+';']
        vt[dst]=rt
        return ['%s = %s;'%(fx.vn(dst),e)]
    def intrinsic(s,fx,vt,dst,name,rt,args):
        a=[x[1] for x in args]
        def setv(e):
            vt[dst]=rt; return ['%s = %s;'%(fx.vn(dst),e)]
        if name.startswith('llvm.lifetime') or name.startswith('llvm.dbg') or name.startswith('llvm.experimental.noalias') or name=='llvm.donothing': return []
        if name.startswith('llvm.assume'): return ['__CPROVER_assume(%s);'%a[0]]
        m=s.m
        def zero_of(et):
            return '0' if isinstance(et,(IntT,FT,PtrT)) else '(%s){0}'%m.ct(et)
        if name.startswith('llvm.memset') and a[0] in fx.chain and re.match(r'^\(*\(u8\)0x0ULL\)*$',a[1].replace(' ','')):
            # typed zeroing when the size equals the size of one of the enclosing typed objects (keeps CBMC field-sensitive)
            out=''
            for (et,src) in fx.chain[a[0]]:
                out+='if (sizeof(%s) == (%s)) { *(%s) = %s; } else '%(m.ct(et),a[2],src,zero_of(et))
            return [out+'irc_memset((u8*)%s,%s,%s);'%(a[0],a[1],a[2])]
        if name.startswith('llvm.memcpy') and a[0] in fx.chain and a[1] in fx.chain:
            out=''
            for (et,d0) in fx.chain[a[0]]:
                for (et2,s0) in fx.chain[a[1]]:
                    if et.key()==et2.key():
                        out+='if (sizeof(%s) == (%s)) { *(%s) = *(%s); } else '%(m.ct(et),a[2],d0,s0)
            if out: return [out+'irc_memcpy((u8*)%s,(u8*)%s,%s);'%(a[0],a[1],a[2])]
        if name.startswith('llvm.memcpy') : return ['irc_memcpy((u8*)%s,(u8*)%s,%s);'%(a[0],a[1],a[2])]
        if name.startswith('llvm.memmove'): return ['irc_memmove((u8*)%s,(u8*)%s,%s);'%(a[0],a[1],a[2])]
        if name.startswith('llvm.memset'): return ['irc_memset((u8*)%s,%s,%s);'%(a[0],a[1],a[2])]
        if name.startswith('llvm.expect'): return setv(a[0])
        if name in('llvm.trap','llvm.ubsantrap','llvm.debugtrap'): return ['irc_trap(%s);'%(a[0] if a else '0')]
        t=args[0][0] if args else None
        if name.startswith('llvm.umin'): return setv('(%s<%s?%s:%s)'%(a[0],a[1],a[0],a[1]))
        if name.startswith('llvm.umax'): return setv('(%s>%s?%s:%s)'%(a[0],a[1],a[0],a[1]))
        if name.startswith('llvm.smin'): return setv('(%s<%s?%s:%s)'%(sx(t,a[0]),sx(t,a[1]),a[0],a[1]))
        if name.startswith('llvm.smax'): return setv('(%s>%s?%s:%s)'%(sx(t,a[0]),sx(t,a[1]),a[0],a[1]))
        if name.startswith('llvm.abs'):
            wide='u128' if t.cw()==128 else 'u64'   # (found by the bigint translation self-test: the 128-bit case was truncated to 64 bits)
            return setv(mask(t,'(%s<0?-(%s)%s:(%s)%s)'%(sx(t,a[0]),wide,sx(t,a[0]),wide,sx(t,a[0]))))
        if name.startswith('llvm.bswap'): return setv('irc_bswap%d(%s)'%(t.b,a[0]))
        if name.startswith('llvm.ctlz'): return setv('irc_ctlz%d(%s)'%(t.b,a[0]))
        if name.startswith('llvm.cttz'): return setv('irc_cttz%d(%s)'%(t.b,a[0]))
        if name.startswith('llvm.ctpop'): return setv('irc_ctpop%d(%s)'%(t.b,a[0]))
        if name.startswith('llvm.fshl'):
            w=t.b; return setv(mask(t,'irc_fshl(%s,%s,%s,%d)'%(a[0],a[1],a[2],w)))
        if name.startswith('llvm.fshr'):
            w=t.b; return setv(mask(t,'irc_fshr(%s,%s,%s,%d)'%(a[0],a[1],a[2],w)))
        if name.startswith('llvm.fabs'): return setv('irc_fabs(%s)'%a[0])
        mm=re.match(r'llvm\.(ceil|floor|trunc|round|rint|nearbyint|sqrt|log10|log2|log|exp2|exp|pow|copysign|fmuladd|fma)\.f(32|64)$',name)
        if mm:
            fn=mm.group(1); suf='f' if mm.group(2)=='32' else ''
            if fn=='fmuladd': return setv('((%s*%s)+%s)'%(a[0],a[1],a[2]))
            return setv('%s%s(%s)'%(fn,suf,', '.join(a)))
        if name.startswith('llvm.is.constant'): return setv('0')
        if name.startswith('llvm.objectsize'): return setv('((u64)-1)')
        mm=re.match(r'llvm\.(u|s)(add|sub|mul)\.with\.overflow\.i(\d+)',name)
        if mm:
            vt[dst]=rt
            sg,o,w=mm.group(1),mm.group(2),int(mm.group(3))
            return ['%s = irc_%s%s_ov%d(%s,%s);'%(fx.vn(dst),sg,o,w,a[0],a[1])] + s.ovneed(sg,o,w,rt)
        mm=re.match(r'llvm\.(u|s)(add|sub)\.sat\.i(\d+)',name)
        if name.startswith('llvm.launder.invariant.group') or name.startswith('llvm.strip.invariant.group'): return setv(a[0])
        if name.startswith('llvm.prefetch') or name.startswith('llvm.invariant.end'): return []
        if name.startswith('llvm.invariant.start'):
            if dst is None: return []
            return setv('0')
        raise Err('intrinsic '+name)
    def ovneed(s,sg,o,w,rt):
        s.ovs=getattr(s,'ovs',{}); s.ovs[(sg,o,w)]=rt; return []

PRELUDE=r'''
typedef unsigned char u8; typedef unsigned short u16; typedef unsigned int u32; typedef unsigned long long u64; typedef unsigned __int128 u128;
typedef signed char s8; typedef short s16; typedef int s32; typedef long long s64; typedef __int128 s128;
void *malloc(unsigned long);
#ifdef IRC_NATIVE
void irc_native_fail(const char*);
#define __CPROVER_assume(c) do{ if(!(c)) irc_native_fail("assume"); }while(0)
#define IRC_ASSERT(c,msg) do{ if(!(c)) irc_native_fail(msg); }while(0)
#endif
#ifndef IRC_ASSERT
#define IRC_ASSERT(c,msg) __CPROVER_assert(c,msg)
#endif
double ceil(double); double floor(double); double trunc(double); double round(double); double rint(double); double nearbyint(double); double sqrt(double); double log10(double); double log2(double); double log(double); double exp2(double); double exp(double); double pow(double,double); double copysign(double,double); double fma(double,double,double);
float ceilf(float); float floorf(float); float truncf(float); float roundf(float); float sqrtf(float); float copysignf(float,float);
int memcmp(const void*, const void*, unsigned long); unsigned long strlen(const char*); void *memchr(const void*, int, unsigned long);
void *memcpy(void*, const void*, unsigned long); void *memmove(void*, const void*, unsigned long); void *memset(void*, int, unsigned long);
static inline double irc_bits2d(u64 b){ union { u64 b; double d; } u; u.b=b; return u.d; }
static inline float irc_bits2f(u32 b){ union { u32 b; float d; } u; u.b=b; return u.d; }
static inline u64 irc_d2bits(double d){ union { u64 b; double d; } u; u.d=d; return u.b; }
static inline u32 irc_f2bits(float d){ union { u32 b; float d; } u; u.d=d; return u.b; }
#ifdef __CPROVER__
#ifndef IRC_OBJECT_BITS
#define IRC_OBJECT_BITS 8
#endif
static inline u64 irc_p2i(u8* p){ s64 off = ((s64)((u64)__CPROVER_POINTER_OFFSET(p) << IRC_OBJECT_BITS)) >> IRC_OBJECT_BITS; return ((u64)__CPROVER_POINTER_OBJECT(p) << 40) + (u64)off; }
#else
static inline u64 irc_p2i(u8* p){ return (u64)p; }
#endif
#ifdef __CPROVER__
static inline s64 irc_soff(u8* p){ return ((s64)((u64)__CPROVER_POINTER_OFFSET(p) << IRC_OBJECT_BITS)) >> IRC_OBJECT_BITS; }
/* same-object fast path folds during symbolic execution; one-before-the-start pointers compare correctly (signed offsets) */
static inline int irc_plt(u8* p, u8* q){ return __CPROVER_same_object(p,q) ? irc_soff(p) < irc_soff(q) : irc_p2i(p) < irc_p2i(q); }
static inline u64 irc_pdiff(u8* p, u8* q){ return __CPROVER_same_object(p,q) ? (u64)(irc_soff(p) - irc_soff(q)) : irc_p2i(p) - irc_p2i(q); }
#else
static inline int irc_plt(u8* p, u8* q){ return (u64)p < (u64)q; }
static inline u64 irc_pdiff(u8* p, u8* q){ return (u64)p - (u64)q; }
#endif
/* allocation meter (C10): every operator new request is recorded */
#ifndef IRC_NATIVE
static u64 irc_alloc_max, irc_alloc_total; static u32 irc_alloc_n;
#define IRC_ALLOC_METER(n) do{ u64 n_=(n); if(n_>irc_alloc_max) irc_alloc_max=n_; irc_alloc_total+=n_; irc_alloc_n++; }while(0)
#endif
static inline int irc_isnan(double d){ return d!=d; }
static inline double irc_fabs(double d){ return d<0?-d:(d==0?0.0:d); }
static inline u8* irc_alloca(u64 n){ u8* p = malloc(n); __CPROVER_assume(p!=0); return p; }
/* small copies into NON-heap objects are done bytewise WITHOUT a loop (heap byte arrays - e.g. std::string storage - use the library memcpy): CBMC's library memcpy rewrites the whole destination object as a byte array, which destroys
   field sensitivity for every other member of the enclosing struct (function pointers, state enums) and with it constant propagation */
static inline u8* irc_memchr(u8* s, int c, u64 n){ for (u64 i = 0; i < n; i++) if (s[i] == (u8)c) return s + i; return (u8*)0; }
#ifdef __CPROVER__
static inline void irc_smallcpy(u8*d,u8*s,u64 n){ u8 t0 = n > 0 ? s[0] : 0; u8 t1 = n > 1 ? s[1] : 0; u8 t2 = n > 2 ? s[2] : 0; u8 t3 = n > 3 ? s[3] : 0; u8 t4 = n > 4 ? s[4] : 0; u8 t5 = n > 5 ? s[5] : 0; u8 t6 = n > 6 ? s[6] : 0; u8 t7 = n > 7 ? s[7] : 0; u8 t8 = n > 8 ? s[8] : 0; u8 t9 = n > 9 ? s[9] : 0; u8 t10 = n > 10 ? s[10] : 0; u8 t11 = n > 11 ? s[11] : 0; u8 t12 = n > 12 ? s[12] : 0; u8 t13 = n > 13 ? s[13] : 0; u8 t14 = n > 14 ? s[14] : 0; u8 t15 = n > 15 ? s[15] : 0; u8 t16 = n > 16 ? s[16] : 0; u8 t17 = n > 17 ? s[17] : 0; u8 t18 = n > 18 ? s[18] : 0; u8 t19 = n > 19 ? s[19] : 0; u8 t20 = n > 20 ? s[20] : 0; u8 t21 = n > 21 ? s[21] : 0; u8 t22 = n > 22 ? s[22] : 0; u8 t23 = n > 23 ? s[23] : 0; if (n > 0) d[0] = t0; if (n > 1) d[1] = t1; if (n > 2) d[2] = t2; if (n > 3) d[3] = t3; if (n > 4) d[4] = t4; if (n > 5) d[5] = t5; if (n > 6) d[6] = t6; if (n > 7) d[7] = t7; if (n > 8) d[8] = t8; if (n > 9) d[9] = t9; if (n > 10) d[10] = t10; if (n > 11) d[11] = t11; if (n > 12) d[12] = t12; if (n > 13) d[13] = t13; if (n > 14) d[14] = t14; if (n > 15) d[15] = t15; if (n > 16) d[16] = t16; if (n > 17) d[17] = t17; if (n > 18) d[18] = t18; if (n > 19) d[19] = t19; if (n > 20) d[20] = t20; if (n > 21) d[21] = t21; if (n > 22) d[22] = t22; if (n > 23) d[23] = t23; }
static inline void irc_smallset(u8*d,u8 v,u64 n){ if (n > 0) d[0] = v; if (n > 1) d[1] = v; if (n > 2) d[2] = v; if (n > 3) d[3] = v; if (n > 4) d[4] = v; if (n > 5) d[5] = v; if (n > 6) d[6] = v; if (n > 7) d[7] = v; if (n > 8) d[8] = v; if (n > 9) d[9] = v; if (n > 10) d[10] = v; if (n > 11) d[11] = v; if (n > 12) d[12] = v; if (n > 13) d[13] = v; if (n > 14) d[14] = v; if (n > 15) d[15] = v; if (n > 16) d[16] = v; if (n > 17) d[17] = v; if (n > 18) d[18] = v; if (n > 19) d[19] = v; if (n > 20) d[20] = v; if (n > 21) d[21] = v; if (n > 22) d[22] = v; if (n > 23) d[23] = v; }
static inline void irc_memcpy(u8*d,u8*s,u64 n){ if(n==0) return; if(n<=24 && !__CPROVER_DYNAMIC_OBJECT(d)) irc_smallcpy(d,s,n); else memcpy(d,s,n); }
static inline void irc_memmove(u8*d,u8*s,u64 n){ if(n==0) return; if(n<=24 && !__CPROVER_DYNAMIC_OBJECT(d)) irc_smallcpy(d,s,n); else memmove(d,s,n); }
static inline void irc_memset(u8*d,u8 v,u64 n){ if(n==0) return; if(n<=24 && !__CPROVER_DYNAMIC_OBJECT(d)) irc_smallset(d,v,n); else memset(d,v,n); }
#else
static inline void irc_memcpy(u8*d,u8*s,u64 n){ if(n) memcpy(d,s,n); }
static inline void irc_memmove(u8*d,u8*s,u64 n){ if(n) memmove(d,s,n); }
static inline void irc_memset(u8*d,u8 v,u64 n){ if(n) memset(d,v,n); }
#endif
static inline void irc_unreachable(void){ IRC_ASSERT(0,"IRC:unreachable executed"); __CPROVER_assume(0); }
static inline void irc_trap(int k){ IRC_ASSERT(0,"IRC:trap (ubsan/abort)"); __CPROVER_assume(0); }
static inline s64 irc_sdiv64(s64 a,s64 b){ return a/b; } static inline s64 irc_srem64(s64 a,s64 b){ return a%b; }
static inline s32 irc_sdiv32(s32 a,s32 b){ return a/b; } static inline s32 irc_srem32(s32 a,s32 b){ return a%b; }
static inline s16 irc_sdiv16(s16 a,s16 b){ return a/b; } static inline s16 irc_srem16(s16 a,s16 b){ return a%b; }
static inline s8 irc_sdiv8(s8 a,s8 b){ return a/b; } static inline s8 irc_srem8(s8 a,s8 b){ return a%b; }
static inline u16 irc_bswap16(u16 x){ return (u16)((x>>8)|(x<<8)); }
static inline u32 irc_bswap32(u32 x){ return (x>>24)|((x>>8)&0xff00u)|((x<<8)&0xff0000u)|(x<<24); }
static inline u64 irc_bswap64(u64 x){ return ((u64)irc_bswap32((u32)x)<<32)|irc_bswap32((u32)(x>>32)); }
static inline u64 irc_fshl(u64 a,u64 b,u64 c,int w){ c%=w; if(c==0) return a; return (a<<c)|(b>>(w-c)); }
static inline u64 irc_fshr(u64 a,u64 b,u64 c,int w){ c%=w; if(c==0) return b; return (a<<(w-c))|(b>>c); }
'''

LIBC_MAP={'memcmp':'memcmp((const void*)%s,(const void*)%s,%s)','strlen':'strlen((const char*)%s)','memchr':'irc_memchr((u8*)%s,(int)%s,%s)','bcmp':'memcmp((const void*)%s,(const void*)%s,%s)'}
RUNTIME_MODELS={
 '__cxa_atexit':'return 0;',
 'ldexp':'if (a0 == 0.0) return a0; u64 b = irc_d2bits(a0); s64 ex = (s64)((b >> 52) & 0x7ff) + (s64)(s32)a1; IRC_ASSERT(ex > 0 && ex < 2047, "ldexp model bound: operand and result are normal doubles (exact scaling by a power of two)"); __CPROVER_assume(ex > 0 && ex < 2047); b = (b & ~(0x7ffULL << 52)) | ((u64)ex << 52); return irc_bits2d(b);',
 'localeconv':'static u8 irc_dp[2] = {46, 0}; static RETBASE irc_lc; irc_lc.f0 = irc_dp; return &irc_lc;',   # "C" locale: decimal_point "."; other lconv fields are not read by jsoncons
 '__assert_fail':'IRC_ASSERT(0,"C assert() failed in the code under test"); __CPROVER_assume(0);',
 '__cxa_guard_acquire':'return *(u8*)a0 == 0;',
 '__cxa_guard_release':'*(u8*)a0 = 1;',
 '__cxa_guard_abort':'',
 '_ZNSt3_V215system_categoryEv':'static u64 irc_syscat[4]; return (RET)irc_syscat;',
 '_ZNSt3_V216generic_categoryEv':'static u64 irc_gencat[4]; return (RET)irc_gencat;',
 '_Znwm':'IRC_ALLOC_METER(a0); u8* p = malloc(a0 ? a0 : 1); __CPROVER_assume(p != 0); return (RET)p;',
 '_Znam':'IRC_ALLOC_METER(a0); u8* p = malloc(a0 ? a0 : 1); __CPROVER_assume(p != 0); return (RET)p;',
 '_ZdlPv':'',
 '_ZdaPv':'',
 '_ZdlPvm':'',
}
def emit(m,entries,stubs,out,protos=None,trap=None):
    models_used=[]; trapped=[]
    trap_re=re.compile(trap) if trap else None
    tr=Trans(m)
    # closure of needed functions
    done={}; work=list(entries); order=[]
    gl_needed=set()
    while work:
        n=work.pop()
        if n in done or n in stubs: continue
        if n in m.funcs:
            tr.need=set()
            if trap_re and n not in entries and trap_re.search(n):
                # CUT: the function is replaced by an assertion (reaching it is reported, never ignored); used for container growth paths outside a kernel's bound
                f=m.funcs[n]; sg=tr.sig(n,f.ret,[p[0] for p in f.params],['a%d'%i for i in range(len(f.params))],getattr(f,'va',False))
                done[n]=sg+' { IRC_ASSERT(0,"cut: growth path outside the kernel bound reached ('+n[:60]+')"); __CPROVER_assume(0); }'; order.append(n); trapped.append(n); continue
            done[n]=tr.func(m.funcs[n]); order.append(n)
            for x in tr.need:
                if x not in done: work.append(x)
        elif n in m.globals:
            done[n]=None; order.append(n)
            t,init,const=m.globals[n]
            if init:
                tr.need=set()
                gi=ginit(tr,t,init)
                done[n]=gi
                for x in tr.need:
                    if x not in done: work.append(x)
        else:
            done[n]=None
    # emit
    o=[PRELUDE]
    # struct forward decls + bodies: named, literal, arrays in dependency order
    emitted=set()
    tydefs=[]
    def emit_type(t):
        if isinstance(t,PtrT):
            # pointers need only forward decl
            fwd(t.e); return
        if isinstance(t,FnT):
            emit_type(t.ret)
            for a in t.args: emit_type(a)
            return
        if isinstance(t,ArrT):
            k=t.key(); m.ct(t)
            if k in emitted: return
            emit_type(t.e); emitted.add(k)
            tydefs.append('struct %s { %s a[%d]; };'%(m.arrs[k][0],m.ct(t.e),max(t.n,1))); return
        if isinstance(t,StructT):
            if t.name in emitted: return
            emitted.add(t.name)
            if t.fields is None: return
            for f in t.fields: emit_type(f)
            body=' '.join('%s f%d;'%(m.ct(f),i) for i,f in enumerate(t.fields)) or 'u8 dummy;'
            tydefs.append('struct %s { %s }%s;'%(t.name,body,' __attribute__((packed))' if t.packed else '')); return
    fwds=set()
    def fwd(t):
        if isinstance(t,StructT): fwds.add(t.name)
        elif isinstance(t,ArrT): fwds.add(m.arrs.get(t.key(),(None,))[0] or m.ct(t).split()[1])
        elif isinstance(t,PtrT): fwd(t.e)
        elif isinstance(t,FnT):
            fwd(t.ret); [fwd(a) for a in t.args]
    # iterate until fixed point since m.ct registers new arrays/fnptrs lazily
    for _ in range(3):
        for st in list(m.named.values())+list(m.lits.values()): emit_type(st)
        for k,(cn,t) in list(m.arrs.items()): emit_type(t)
        for k,(cn,ft) in list(m.fnts.items()): emit_type(ft)
    o.append('\n'.join('struct %s;'%n for n in sorted(set(list(fwds)+[st.name for st in m.named.values()]+[st.name for st in m.lits.values()]+[v[0] for v in m.arrs.values()]))))
    # fn pointer typedefs (may reference each other: emit in creation order)
    fnt=[]
    for k,(cn,ft) in m.fnts.items():
        ps=', '.join(m.ct(a) for a in ft.args) or ('' if ft.va else 'void')
        if ft.va and ft.args: ps+=', ...'
        fnt.append('typedef %s (*%s)(%s);'%(m.ct(ft.ret),cn,ps))
    o.append('\n'.join(fnt))
    o.append('\n'.join(tydefs))
    n_type_chunks=len(o)
    # overflow helpers
    for (sg,op,w),rt in getattr(tr,'ovs',{}).items():
        c='u%d'%w; sc='s%d'%w; wide='u128' if w==64 else 'u64'; swide='s128' if w==64 else 's64'
        cop={'add':'+','sub':'-','mul':'*'}[op]
        if sg=='u':
            o.append('static inline struct %s irc_u%s_ov%d(%s a,%s b){ struct %s r; %s x=(%s)a %s (%s)b; r.f0=(%s)x; r.f1=(x!=(%s)r.f0); return r; }'%(rt.name,op,w,c,c,rt.name,wide,wide,cop,wide,c,wide))
        else:
            o.append('static inline struct %s irc_s%s_ov%d(%s a,%s b){ struct %s r; %s x=(%s)(%s)a %s (%s)(%s)b; r.f0=(%s)x; r.f1=(x!=(%s)(%s)r.f0); return r; }'%(rt.name,op,w,c,c,rt.name,swide,swide,sc,cop,swide,sc,c,swide,sc))
    # prototypes
    for n in done:
        if n in m.funcs:
            f=m.funcs[n]; o.append(('' if n in entries else 'static ')+tr.sig(n,f.ret,[p[0] for p in f.params],None,getattr(f,'va',False))+';')
        elif n in m.decls:
            ft=m.decls[n]
            if n.startswith('llvm.'): continue
            if n in RUNTIME_MODELS:
                # C++ runtime symbols modelled by contract inside the generated C (CBMC build only; native builds link the real runtime)
                sg=tr.sig(n,ft.ret,ft.args,['a%d'%i for i in range(len(ft.args))],ft.va)
                o.append('#ifdef IRC_NATIVE\n'+('#define %s %s\n'%(RENAME[n],n) if n in RENAME else '')+'extern '+tr.sig(n,ft.ret,ft.args,None,ft.va)+';\n#else\n'+sg+' { '+RUNTIME_MODELS[n].replace('RETBASE',m.ct(ft.ret).rstrip('*').strip()).replace('RET',m.ct(ft.ret))+' }\n#endif')
                models_used.append(n)
                continue
            o.append('extern '+tr.sig(n,ft.ret,ft.args,None,ft.va)+';')
    for n in stubs:
        if n in m.funcs:
            f=m.funcs[n]; o.append('extern '+tr.sig(n,f.ret,[p[0] for p in f.params],None,getattr(f,'va',False))+'; /* STUB */')
            # IRC_SIG_<name>: the full C signature (parameters a0, a1, ...) so that a harness-side model need not spell IR-numbered struct names
            o.append('#define IRC_SIG_%s %s'%(cname(n),tr.sig(n,f.ret,[p[0] for p in f.params],['a%d'%i for i in range(len(f.params))],getattr(f,'va',False))))
    # globals: tentative declarations first (initialisers may reference each other)
    for n in order:
        if n in m.globals and done[n] is not None:
            o.append('static %s %s;'%(m.ct(m.globals[n][0]),cname(n)))
    for n in order:
        if n in m.globals:
            t,init,const=m.globals[n]
            if done[n] is None: o.append('extern %s %s;'%(m.ct(t),cname(n)))
            else: o.append('static %s %s = %s;'%(m.ct(t),cname(n),done[n]))
    for n in order:
        if n in m.funcs: o.append(('' if n in entries else 'static ')+done[n])
    open(out,'w').write('\n'.join(o))
    if protos:
        po=o[:n_type_chunks]
        for n in entries:
            if n in m.funcs:
                f=m.funcs[n]; po.append(tr.sig(n,f.ret,[p[0] for p in f.params],None,getattr(f,'va',False))+';')
        open(protos,'w').write('\n'.join(po))
    return dict(entries=list(entries),
                functions=sorted('%s (%d IR lines)'%(n,len(m.funcs[n].lines)) for n in order if n in m.funcs),
                externs=sorted(n for n in done if n not in m.funcs and n not in m.globals and not n.startswith('llvm.')),
                stubbed=sorted(stubs), runtime_models=models_used, trapped=sorted(trapped))

def ginit(tr,t,init):
    m=tr.m
    init=init.strip()
    if init in('zeroinitializer','undef','poison'): return '{0}' if not isinstance(t,(IntT,FT,PtrT)) else '0'
    if isinstance(t,(IntT,FT,PtrT)): return tr.val(None_fx,t,init)
    if isinstance(t,ArrT):
        if init.startswith('c"'):
            bs=parse_cstr(init[2:-1])
            return '{{%s}}'%','.join(str(b) for b in bs)
        inner=init[1:-1]
        els=[]
        for e in split_top(inner):
            et,r=m.ptype(e); els.append(ginit(tr,et,r))
        return '{{%s}}'%','.join(els)
    if isinstance(t,StructT):
        inner=init[2:-2] if init.startswith('<{') else init[1:-1]
        els=[]
        for e in split_top(inner):
            et,r=m.ptype(e); els.append(ginit(tr,et,r))
        return '{%s}'%','.join(els)
    raise Err('ginit '+init[:50])
def parse_cstr(s):
    out=[]; i=0
    while i<len(s):
        if s[i]=='\\':
            if s[i+1]=='\\': out.append(92); i+=2
            else: out.append(int(s[i+1:i+3],16)); i+=3
        else: out.append(ord(s[i])); i+=1
    return out
class _NF:
    def vn(s,v): raise Err('local in global init')
None_fx=_NF()

if __name__=='__main__':
    src,dst=sys.argv[1],sys.argv[2]
    entries=[]; stubs=set(); prefix=None; infop=None; protos=None; trap=None
    a=sys.argv[3:]
    while a:
        if a[0]=='--entry': entries=a[1].split(','); a=a[2:]
        elif a[0]=='--stub': stubs=set(a[1].split(',')); a=a[2:]
        elif a[0]=='--entry-prefix': prefix=a[1]; a=a[2:]
        elif a[0]=='--info': infop=a[1]; a=a[2:]
        elif a[0]=='--protos': protos=a[1]; a=a[2:]
        elif a[0]=='--trap': trap=a[1]; a=a[2:]
        else: raise SystemExit('arg '+a[0])
    m=parse_module(open(src).read())
    if prefix: entries+= [n for n in m.funcs if n.startswith(prefix)]
    info=emit(m,entries,stubs,dst,protos,trap)
    if infop:
        import json; json.dump(info,open(infop,'w'),indent=1)
