// vselftest.h - helpers for the translation-validation self-test (g++ build of the shim vs gcc build of the generated C)
#ifndef VSELFTEST_H
#define VSELFTEST_H
#include <csetjmp>
#include <cstdio>
#include <cstdlib>
#include <cstring>
#include <cstdint>
static jmp_buf st_jb; static int st_thrown;
extern "C" {
[[noreturn]] void irc_throw(const char*) { st_thrown = 1; longjmp(st_jb, 1); }
[[noreturn]] void irc_assert_fail(const char*) { st_thrown = 2; longjmp(st_jb, 1); }
[[noreturn]] void irc_unreachable_hit(void) { st_thrown = 3; longjmp(st_jb, 1); }
[[noreturn]] void irc_native_fail(const char*) { st_thrown = 4; longjmp(st_jb, 1); }
}
// run stmt; evaluates to 0 if it returned normally, else the kind of abnormal exit
#define ST_TRY(stmt) (st_thrown = 0, (setjmp(st_jb) == 0 ? ((void)(stmt), 0) : st_thrown))
static uint64_t st_s;
static inline uint64_t st_rand() { st_s ^= st_s << 13; st_s ^= st_s >> 7; st_s ^= st_s << 17; return st_s; }
static long st_cases, st_bad;
#define ST_CHECK(c) do { st_cases++; if (!(c)) { if (st_bad < 5) fprintf(stderr, "mismatch at %s:%d: %s\n", __FILE__, __LINE__, #c); st_bad++; } } while (0)
#define ST_MAIN_BEGIN int main(int argc, char** argv) { st_s = 0x9E3779B97F4A7C15ull ^ (argc > 1 ? strtoull(argv[1], 0, 10) * 0x100000001B3ull : 0); if (!st_s) st_s = 1;
#define ST_MAIN_END printf("cases=%ld mismatches=%ld\n", st_cases, st_bad); return st_bad != 0; }
#endif
