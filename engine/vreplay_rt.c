/* vreplay_rt.c - runtime for the native REPLAY build of a harness: argv = <harness> NAME=VALUE | NAME=[v0,v1,...] */
#include <stdio.h>
#include <stdlib.h>
#include <string.h>
struct rin { const char* name; void* addr; unsigned elem, count; };
static struct rin ins[64]; static int nins;
struct rh { const char* name; void (*fn)(void); };
static struct rh hs[128]; static int nhs;
void rp_reg_input(const char* name, void* addr, unsigned elem, unsigned count) { if (nins < 64) { ins[nins].name = name; ins[nins].addr = addr; ins[nins].elem = elem; ins[nins].count = count; nins++; } }
void rp_reg_harness(const char* name, void (*fn)(void)) { if (nhs < 128) { hs[nhs].name = name; hs[nhs].fn = fn; nhs++; } }
void irc_native_fail(const char* msg) { printf("REPRODUCED: translated-code trap in native replay?? %s\n", msg); exit(1); }
static void store(struct rin* r, unsigned i, unsigned long long v) {
  if (i >= r->count) return;
  char* p = (char*)r->addr + (size_t)i * r->elem;
  memcpy(p, &v, r->elem > 8 ? 8 : r->elem); /* little endian */
}
int main(int argc, char** argv) {
  if (argc < 2) { fprintf(stderr, "usage: replay <harness> NAME=VALUE...\n"); return 2; }
  for (int a = 2; a < argc; a++) {
    char* eq = strchr(argv[a], '='); if (!eq) continue;
    size_t kl = (size_t)(eq - argv[a]);
    for (int k = 0; k < nins; k++) if (strlen(ins[k].name) == kl && !strncmp(ins[k].name, argv[a], kl)) {
      char* v = eq + 1; unsigned i = 0;
      if (*v == '[') v++;
      while (*v && *v != ']') { char* e; unsigned long long x = strtoull(v, &e, 10); if (e == v) break; store(&ins[k], i++, x); v = e; if (*v == ',') v++; }
    }
  }
  for (int k = 0; k < nhs; k++) if (!strcmp(hs[k].name, argv[1])) { hs[k].fn(); printf("replay: harness %s completed, no violation on the real build\n", argv[1]); return 0; }
  fprintf(stderr, "replay: unknown harness %s\n", argv[1]); return 2;
}
