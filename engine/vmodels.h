/* vmodels.h - models (by contract) of the few C++ runtime symbols the lowered kernels call.  CBMC build only: the native REPLAY
   build links the real runtime.  Every model used by a kernel is listed in that kernel's STUB_NOTES. */
#ifndef VMODELS_H
#define VMODELS_H
#ifndef REPLAY
/* operator new/delete, __cxa_guard_*, __cxa_atexit, std::system_category are modelled inside the generated kernel.c (irc RUNTIME_MODELS) */
#ifdef NEED_THROWS
void _ZSt28__throw_bad_array_new_lengthv(void) { P(0, "std::__throw_bad_array_new_length"); PATH_END(); }
void _ZSt20__throw_length_errorPKc(u8* m) { P(0, "std::__throw_length_error (foreign exception)"); PATH_END(); }
void _ZSt21__glibcxx_assert_failPKciS0_S0_(u8* f, u32 l, u8* fn, u8* c) { P(0, "libstdc++ hardening assertion failed (_GLIBCXX_ASSERTIONS: e.g. operator[] / front() / back() out of range)"); PATH_END(); }
void _ZSt19__throw_logic_errorPKc(u8* m) { P(0, "std::__throw_logic_error (foreign exception)"); PATH_END(); }
void _ZSt24__throw_out_of_range_fmtPKcz(u8* m, ...) { P(0, "std::__throw_out_of_range (foreign exception)"); PATH_END(); }
void _ZSt17__throw_bad_allocv(void) { P(0, "std::__throw_bad_alloc"); PATH_END(); }
#endif
#ifdef NEED_STRING_NOGROW
/* Strings in this kernel stay within the 15-char SSO buffer (bounds of the jobs guarantee it); the reallocation slow paths are cut: reaching one is
   reported as an assertion failure (never silently ignored), and symbolic execution does not have to carry malloc(symbolic size) + memcpy around. */
#define VSTR0 struct S_class_2estd_3a_3a__cxx11_3a_3abasic_string
void _ZNSt7__cxx1112basic_stringIcSt11char_traitsIcESaIcEE9_M_mutateEmmPKcm(VSTR0* t, u64 a, u64 b, u8* s, u64 c) { P(0, "string model: capacity bound (15, SSO) exceeded - job bound too small for this tree"); PATH_END(); }
#endif
#ifdef NEED_STRING_REPLACE
/* std::string::_M_replace(pos, len1, s, len2) by contract (libstdc++ layout {ptr,len,{cap|local[16]}}).  The real function decides between an
   in-place and an aliasing-safe path by comparing pointers of DIFFERENT objects (_M_disjunct); under CBMC that comparison cannot be resolved during
   symbolic execution and the infeasible aliasing path then destroys constant propagation for the enclosing object.  Contract used here: the source
   does not alias the string's own buffer (asserted - every in-repo caller appends input-buffer bytes), capacity grows like libstdc++ (max(new, 2*cap)). */
#define VSTR struct S_class_2estd_3a_3a__cxx11_3a_3abasic_string
VSTR* _ZNSt7__cxx1112basic_stringIcSt11char_traitsIcESaIcEE10_M_replaceEmmPKcm(VSTR* t, u64 pos, u64 len1, u8* s, u64 len2) {
  u64 old = t->f1; u8* data = t->f0.f0;
  P(pos <= old && len1 <= old - pos, "string model: _M_replace range inside the string");
  P(len2 == 0 || !__CPROVER_same_object(s, data), "string model: self-aliasing replace is outside the model");
  u64 nl = old + len2 - len1, tail = old - pos - len1;
  int local = (data == (u8*)&t->f2);
  u64 cap = local ? 15 : t->f2.f0;
  if (nl <= cap) {
    if (tail && len1 != len2) irc_memmove(data + pos + len2, data + pos + len1, tail);
    if (len2) irc_memcpy(data + pos, s, len2);
  } else {
#ifdef NEED_STRING_NOGROW
    P(0, "string model: capacity bound exceeded - job bound too small for this tree"); PATH_END();
#else
    u64 nc = nl > 2 * cap ? nl : 2 * cap;
    u8* nd = malloc(nc + 1); __CPROVER_assume(nd != 0);
    if (pos) irc_memcpy(nd, data, pos);
    if (len2) irc_memcpy(nd + pos, s, len2);
    if (tail) irc_memcpy(nd + pos + len2, data + pos + len1, tail);
    t->f0.f0 = nd; t->f2.f0 = nc; data = nd;
#endif
  }
  t->f1 = nl; data[nl] = 0;
  return t;
}
#endif
#endif
#endif
