/* vmodels.h - models (by contract) of the few C++ runtime symbols the lowered kernels call.  CBMC build only: the native REPLAY
   build links the real runtime.  Every model used by a kernel is listed in that kernel's STUB_NOTES. */
#ifndef VMODELS_H
#define VMODELS_H
#ifndef REPLAY
/* operator new/delete, __cxa_guard_*, __cxa_atexit, std::system_category are modelled inside the generated kernel.c (irc RUNTIME_MODELS) */
#ifdef NEED_THROWS
void _ZSt28__throw_bad_array_new_lengthv(void) { P(0, "std::__throw_bad_array_new_length"); PATH_END(); }
void _ZSt20__throw_length_errorPKc(u8* m) { P(0, "std::__throw_length_error (foreign exception)"); PATH_END(); }
void _ZSt21__glibcxx_assert_failPKciS0_S0_(u8* f, u32 l, u8* fn, u8* c) { P(0, "libstdc++ hardening assertion failed (_GLIBCXX_ASSERTIONS: e.g. operator[] / front() / back() out of range)"); PATH_END(); }
void _ZSt19__throw_logic_errorPKc(u8* m) { P(0, "std::__throw_logic_error (foreign exception)"); PATH_END(); }
void _ZSt24__throw_out_of_range_fmtPKcz(u8* m, ...) { P(0, "std::__throw_out_of_range (foreign exception)"); PATH_END(); }
void _ZSt17__throw_bad_allocv(void) { P(0, "std::__throw_bad_alloc"); PATH_END(); }
#endif
#endif
#endif
